// Package c02b is the harness of part C02B (property C02): gtab.Read (GSUB and
// GPOS) with the real subtable readers, on valid, truncated, mutated and
// aliasing-offset tables, compared with the composed model of coq/C02B
// (accept/reject class and decoded structure) and guarded by the oracle of
// the property: no panic, return within the watchdog, allocation and time
// within a bound linear in the input size.
package c02b

import (
	"bytes"
	"errors"
	"fmt"
	"regexp"
	"runtime"
	"runtime/debug"
	"strings"
	"time"

	"seehuhn.de/go/sfnt/opentype/gtab"
	"seehuhn.de/go/sfnt/verifharness/c08d"
	"seehuhn.de/go/sfnt/verifharness/vlib"
)

// Case lines (see ocaml/c02b_driver.ml):
//
//	gtab gsub|gpos xBYTES KNOWN        gtab.Read
//	sub gsub|gpos TYPE xBYTES pos      one subtable reader (readGsubSubtable / readGposSubtable)

// the bounds of harness/c02 (property C02: "time and allocation linear in
// len(b) plus a fixed constant")
const (
	allocConst   = 96 << 20
	allocPerByte = 2048
	timeConst    = 4 * time.Second
	timePerKiB   = 4 * time.Millisecond
	watchdog     = 25 * time.Second
)

func allocBound(n int) uint64       { return allocConst + uint64(n)*allocPerByte }
func timeBound(n int) time.Duration { return timeConst + time.Duration(n/1024+1)*timePerKiB }

type verdict struct {
	obs      string
	panicked string
	detail   string
	hang     bool
	alloc    uint64
	dur      time.Duration
}

var repoFrame = regexp.MustCompile(`(?m)^\s+/repo/(\S+\.go):(\d+)`)

func panicSignature(stack string) string {
	for _, m := range repoFrame.FindAllStringSubmatch(stack, -1) {
		if strings.Contains(m[1], "verif_hooks") {
			continue
		}
		return m[1] + ":" + m[2]
	}
	return "unknown"
}

// guard runs fn observing panics, time and allocation.
func guard(fn func() string) verdict {
	done := make(chan verdict, 1)
	go func() {
		var v verdict
		var m0, m1 runtime.MemStats
		runtime.ReadMemStats(&m0)
		t0 := time.Now()
		func() {
			defer func() {
				if e := recover(); e != nil {
					v.panicked = panicSignature(string(debug.Stack()))
					v.detail = fmt.Sprintf("panic: %v", e)
				}
			}()
			v.obs = fn()
		}()
		v.dur = time.Since(t0)
		runtime.ReadMemStats(&m1)
		v.alloc = m1.TotalAlloc - m0.TotalAlloc
		done <- v
	}()
	select {
	case v := <-done:
		return v
	case <-time.After(watchdog):
		return verdict{hang: true, dur: watchdog}
	}
}

func tableType(t string) gtab.Type {
	if t == "gpos" {
		return gtab.TypeGpos
	}
	return gtab.TypeGsub
}

// evalGtab: gtab.Read under the guard; the observation in the model's syntax.
func evalGtab(table string, data []byte) (impl, fail, sig string, comparable bool) {
	comparable = true
	var back *gtab.Info
	v := guard(func() string {
		var err error
		// the reader gets a sub-slice of a larger buffer
		big := append(append([]byte{0xEE, 0xEE}, data...), 0xDD, 0xDD, 0xDD)
		back, err = gtab.Read(bytes.NewReader(big[2:2+len(data)]), tableType(table))
		if err != nil {
			return "err"
		}
		return "ok"
	})
	name := "gtab.Read/" + strings.ToUpper(table)
	switch {
	case v.hang:
		return "hang", fmt.Sprintf("%s did not return within %v on %d bytes", name, watchdog, len(data)), "hang:" + name, true
	case v.panicked != "":
		return "panic", fmt.Sprintf("%s panicked at %s: %s", name, v.panicked, v.detail), "panic:" + v.panicked, true
	}
	impl = "err"
	if v.obs == "ok" {
		bd, ok := c08d.DescribeInfo(table, back)
		if !ok {
			impl, comparable = "undescribable", false
		} else {
			impl = vlib.Str(bd.ObsSx())
		}
	}
	if v.alloc > allocBound(len(data)) {
		return impl, fmt.Sprintf("%s allocated %d bytes for an input of %d bytes (bound %d)", name, v.alloc, len(data), allocBound(len(data))), "alloc:" + name, comparable
	}
	if v.dur > timeBound(len(data)) {
		return impl, fmt.Sprintf("%s took %v for an input of %d bytes (bound %v)", name, v.dur, len(data), timeBound(len(data))), "time:" + name, comparable
	}
	return impl, "", "", comparable
}

func evalSub(table string, tp int, data []byte, pos int) (impl, fail, sig string) {
	v := guard(func() string {
		st, err := gtab.VerifC08ReadSubtable(data, int64(pos), tableType(table), uint16(tp))
		if err != nil {
			return "err"
		}
		d, ok := c08d.Describe(st)
		if !ok {
			return "undescribable"
		}
		return vlib.Str(vlib.L(vlib.Atom("ok"), d.Sx()))
	})
	name := fmt.Sprintf("subtable-reader/%s/%d", strings.ToUpper(table), tp)
	switch {
	case v.hang:
		return "hang", name + " did not return within the watchdog", "hang:" + name
	case v.panicked != "":
		return "panic", fmt.Sprintf("%s panicked at %s: %s", name, v.panicked, v.detail), "panic:" + v.panicked
	}
	if v.alloc > allocBound(len(data)) {
		return v.obs, fmt.Sprintf("%s allocated %d bytes for an input of %d bytes (bound %d)", name, v.alloc, len(data), allocBound(len(data))), "alloc:" + name
	}
	return v.obs, "", ""
}

func gtabLine(table string, data []byte) string {
	return vlib.Line(vlib.Atom("gtab"), vlib.Atom(table), vlib.Hex(data), c08d.KnownSx())
}

// RunCase re-executes one case line.
func RunCase(line string) (impl, fail, sig string, err error) {
	line = strings.TrimPrefix(line, "!")
	items, err := vlib.Parse(line)
	if err != nil || len(items) == 0 {
		return "", "", "", errors.New("bad case line")
	}
	kind, _ := vlib.AsAtom(items[0])
	switch kind {
	case "gtab":
		if len(items) != 4 {
			return "", "", "", errors.New("gtab: want 3 arguments")
		}
		t, _ := vlib.AsAtom(items[1])
		data, err := vlib.AsBytes(items[2])
		if err != nil {
			return "", "", "", err
		}
		impl, fail, sig, _ = evalGtab(t, data)
		return impl, fail, sig, nil
	case "sub":
		if len(items) != 5 {
			return "", "", "", errors.New("sub: want 4 arguments")
		}
		t, _ := vlib.AsAtom(items[1])
		tp, e1 := vlib.AsInt(items[2])
		data, e2 := vlib.AsBytes(items[3])
		pos, e3 := vlib.AsInt(items[4])
		if e1 != nil || e2 != nil || e3 != nil {
			return "", "", "", errors.New("sub: bad arguments")
		}
		impl, fail, sig = evalSub(t, tp, data, pos)
		return impl, fail, sig, nil
	}
	return "", "", "", fmt.Errorf("unknown case kind %q", kind)
}

// ---- generation --------------------------------------------------------------

type gen struct {
	run *vlib.Run
}

func obsClass(impl string) string {
	if len(impl) > 0 && impl[0] == '(' {
		return "ok"
	}
	return impl
}

func (g *gen) gtab(table string, data []byte, lb ...string) {
	impl, fail, sig, comparable := evalGtab(table, data)
	line := gtabLine(table, data)
	if !comparable {
		line = "!" + line
		lb = append(lb, "gtab:tag-outside-the-usable-pairs(oracle only)")
	}
	idx := g.run.Add(line, impl, len(data) >= 10, append([]string{"gtab", "gtab:" + table, "gtab:" + obsClass(impl)}, lb...)...)
	if fail != "" {
		g.run.Fail(idx, line, fail, sig)
	}
}

func (g *gen) sub(table string, tp int, data []byte, pos int, lb ...string) {
	impl, fail, sig := evalSub(table, tp, data, pos)
	line := vlib.Line(vlib.Atom("sub"), vlib.Atom(table), vlib.Int(tp), vlib.Hex(data), vlib.Int(pos))
	if impl == "undescribable" {
		line = "!" + line
	}
	idx := g.run.Add(line, impl, len(data) >= 6, append([]string{"sub", "sub:" + obsClass(impl)}, lb...)...)
	if fail != "" {
		g.run.Fail(idx, line, fail, sig)
	}
}

var interesting16 = []int{0, 1, 2, 3, 4, 6, 8, 10, 0x7F, 0x80, 0xFF, 0x100, 0x7FFF, 0x8000, 0xFFFE, 0xFFFF}

func put16(b []byte, off, v int) {
	if off >= 0 && off+1 < len(b) {
		b[off], b[off+1] = byte(v>>8), byte(v)
	}
}

func get16(b []byte, off int) int {
	if off >= 0 && off+1 < len(b) {
		return int(b[off])<<8 | int(b[off+1])
	}
	return 0
}

// mutate returns a corrupted copy of b and the class of the mutation.
func mutate(r *vlib.Rand, b []byte) ([]byte, string) {
	c := append([]byte(nil), b...)
	if len(c) == 0 {
		return c, "empty"
	}
	switch r.Intn(9) {
	case 0:
		return c[:r.Intn(len(c))], "truncate"
	case 1:
		for i, n := 0, 1+r.Intn(4); i < n; i++ {
			c[r.Intn(len(c))] ^= 1 << uint(r.Intn(8))
		}
		return c, "bitflip"
	case 2:
		for i, n := 0, 1+r.Intn(3); i < n; i++ {
			c[r.Intn(len(c))] = vlib.Pick(r, []byte{0, 1, 0x7F, 0x80, 0xFF})
		}
		return c, "byteset"
	case 3, 4: // a 16-bit field takes a boundary value
		for i, n := 0, 1+r.Intn(3); i < n; i++ {
			put16(c, 2*r.Intn(len(c)/2+1), vlib.Pick(r, interesting16))
		}
		return c, "word-boundary-value"
	case 5: // a 16-bit field takes the value of another one (offsets that alias)
		for i, n := 0, 1+r.Intn(3); i < n; i++ {
			put16(c, 2*r.Intn(len(c)/2+1), get16(c, 2*r.Intn(len(c)/2+1)))
		}
		return c, "word-aliased"
	case 6: // a field takes a position of the table (offsets pointing anywhere, also at themselves)
		put16(c, 2*r.Intn(len(c)/2+1), 2*r.Intn(len(c)/2+1))
		return c, "word-points-into-table"
	case 7: // bytes removed in the middle
		p := r.Intn(len(c))
		n := 1 + r.Intn(6)
		if p+n > len(c) {
			n = len(c) - p
		}
		return append(c[:p], c[p+n:]...), "delete"
	default: // garbage appended / a block duplicated
		p := r.Intn(len(c))
		return append(append(c[:p:p], c[p/2:]...), c[p:]...), "duplicate-block"
	}
}

func u16(v int) []byte { return []byte{byte(v >> 8), byte(v)} }

// header + empty script list + empty feature list; the lookup list follows
func emptyLists() []byte {
	b := []byte{0, 1, 0, 0}
	b = append(b, u16(10)...)
	b = append(b, u16(12)...)
	b = append(b, u16(14)...)
	return append(b, 0, 0, 0, 0)
}

// lookupAliased: nLookups lookup offsets pointing at one lookup table whose
// nSub subtable offsets point at one subtable.
func lookupAliased(tp int, nLookups, nSub int, sub []byte) []byte {
	b := emptyLists()
	ll := u16(nLookups)
	lookupOff := 2 + 2*nLookups
	for i := 0; i < nLookups; i++ {
		ll = append(ll, u16(lookupOff)...)
	}
	subOff := 6 + 2*nSub
	lt := append(append(u16(tp), u16(0)...), u16(nSub)...)
	for i := 0; i < nSub; i++ {
		lt = append(lt, u16(subOff)...)
	}
	return append(b, append(ll, append(lt, sub...)...)...)
}

// extAliased: an extension lookup (type ext) whose nSub extension records all
// point at one subtable (inner type tp); chain: the extension records point at
// an extension record again.
func extAliased(ext, tp, nSub int, sub []byte, chain bool) []byte {
	b := emptyLists()
	ll := append(u16(1), u16(4)...)
	lt := append(append(u16(ext), u16(0)...), u16(nSub)...)
	recs := 6 + 2*nSub
	for i := 0; i < nSub; i++ {
		lt = append(lt, u16(recs+8*i)...)
	}
	target := recs + 8*nSub
	for i := 0; i < nSub; i++ {
		inner := tp
		off := target - (recs + 8*i)
		if chain {
			inner, off = ext, 8
			if i == nSub-1 {
				off = 0
			}
		}
		lt = append(lt, 0, 1)
		lt = append(lt, u16(inner)...)
		lt = append(lt, byte(off>>24), byte(off>>16), byte(off>>8), byte(off))
	}
	return append(b, append(ll, append(lt, sub...)...)...)
}

// gsub21Aliased: n sequence offsets to one sequence of n glyphs.
func gsub21Aliased(n int) []byte {
	seqOff := 6 + 2*n
	covOff := seqOff + 2 + 2*n
	sub := append(append(u16(1), u16(covOff)...), u16(n)...)
	for i := 0; i < n; i++ {
		sub = append(sub, u16(seqOff)...)
	}
	sub = append(sub, u16(n)...)
	for i := 0; i < n; i++ {
		sub = append(sub, u16(i+1)...)
	}
	return append(sub, 0, 2, 0, 1, 0, 1, byte(n>>8), byte(n), 0, 0)
}

// seq3Aliased: k input coverage offsets to one range of m glyphs.
func seq3Aliased(k, m int) []byte {
	covOff := 6 + 2*k
	sub := append(append(u16(3), u16(k)...), u16(0)...)
	for i := 0; i < k; i++ {
		sub = append(sub, u16(covOff)...)
	}
	return append(sub, 0, 2, 0, 1, 0, 0, byte((m-1)>>8), byte(m-1), 0, 0)
}

// gpos21Aliased: n pair set offsets to one pair set of n pairs.
func gpos21Aliased(n int) []byte {
	psOff := 10 + 2*n
	covOff := psOff + 2 + 4*n
	sub := append(append(append(append(u16(1), u16(covOff)...), u16(4)...), u16(0)...), u16(n)...)
	for i := 0; i < n; i++ {
		sub = append(sub, u16(psOff)...)
	}
	sub = append(sub, u16(n)...)
	for i := 0; i < n; i++ {
		sub = append(append(sub, u16(i+1)...), u16(7)...)
	}
	return append(sub, 0, 2, 0, 1, 0, 1, byte(n>>8), byte(n), 0, 0)
}

// gsub11Cov: a GSUB 1.1 subtable with n covered glyphs (format 1 coverage).
func gsub11Cov(n int) []byte {
	sub := append(append(u16(1), u16(6)...), u16(1)...)
	sub = append(append(sub, u16(1)...), u16(n)...)
	for i := 0; i < n; i++ {
		sub = append(sub, u16(2*i+1)...)
	}
	return sub
}

// scriptAliased: nScripts script records to one script table whose nLang
// LangSys records point at one LangSys table with nFeat feature indices.
func scriptAliased(nScripts, nLang, nFeat int) []byte {
	b := []byte{0, 1, 0, 0}
	b = append(b, u16(10)...)
	b = append(b, 0, 0, 0, 0)
	sl := u16(nScripts)
	scriptTableOff := 2 + 6*nScripts
	for i := 0; i < nScripts; i++ {
		sl = append(append(sl, 'l', 'a', 't', 'n'), u16(scriptTableOff)...)
	}
	langSysOff := 4 + 6*nLang
	st := append(u16(0), u16(nLang)...)
	for i := 0; i < nLang; i++ {
		st = append(append(st, 'D', 'E', 'U', ' '), u16(langSysOff)...)
	}
	ls := append(append(u16(0), u16(0xFFFF)...), u16(nFeat)...)
	for i := 0; i < nFeat; i++ {
		ls = append(ls, 0, 0)
	}
	b = append(b, append(sl, append(st, ls...)...)...)
	fl := len(b)
	b = append(b, 0, 0)
	ll := len(b)
	b = append(b, 0, 0)
	put16(b, 6, fl)
	put16(b, 8, ll)
	return b
}

func Gen(run *vlib.Run, seed uint64, tier string) {
	c08d.TagInit()
	run.Rule = "a table of at least 10 bytes (gtab), a subtable of at least 6 bytes (sub)"
	g := &gen{run: run}
	r := vlib.NewRand(seed).Fork("c02b")

	// valid tables of every subtable kind (the generators of part C08D), as
	// written by (*gtab.Info).Encode
	type seedT struct {
		table string
		data  []byte
		subs  [][3]int // lookup type, position, length of each subtable (for the sub stream)
	}
	var seeds []seedT
	rs := r.Fork("seeds")
	for k := 0; k < vlib.Count(tier, 36, 400); k++ {
		table := vlib.Pick(rs, []string{"gsub", "gpos"})
		nl := vlib.Pick(rs, []int{1, 2, 3, 5, 9})
		d := c08d.GenInfo(rs, table, nl, 3, vlib.Pick(rs, []int{2, 5, 10}))
		info, ok := d.Build()
		if !ok {
			continue
		}
		var enc []byte
		if pp, _ := c08d.Guard(func() { enc = info.Encode() }); pp || len(enc) > 6000 {
			continue
		}
		seeds = append(seeds, seedT{table: table, data: enc})
		g.gtab(table, enc, "gtab:valid")
	}
	// a table beyond 64 KiB with extension records
	{
		d := c08d.Info{Table: "gsub"}
		for i := 0; i < 4; i++ {
			s, _ := c08d.SizedSub("gsub12", 22016, i)
			d.Lookups = append(d.Lookups, c08d.Lookup{Type: 1, Subs: []c08d.Sub{s}})
		}
		if info, ok := d.Build(); ok {
			var enc []byte
			if pp, _ := c08d.Guard(func() { enc = info.Encode() }); !pp {
				g.gtab("gsub", enc, "gtab:valid", "gtab:valid>64KiB-extension-records")
				g.gtab("gsub", enc[:len(enc)-1], "gtab:truncate", "gtab:>64KiB-last-byte-missing")
			}
		}
	}

	// every prefix class and mutations of the valid tables
	rm := r.Fork("mutate")
	for _, s := range seeds {
		for _, n := range []int{0, 1, 9, 10, 11, 13, 14, len(s.data) / 2, len(s.data) - 1} {
			if n >= 0 && n <= len(s.data) {
				g.gtab(s.table, s.data[:n], "gtab:truncate")
			}
		}
		for k := 0; k < vlib.Count(tier, 22, 300); k++ {
			m, lb := mutate(rm, s.data)
			if rm.Chance(1, 4) {
				m, _ = mutate(rm, m)
				lb += "+"
			}
			g.gtab(s.table, m, "gtab:mutated", "gtab:"+lb)
		}
		other := "gpos"
		if s.table == "gpos" {
			other = "gsub"
		}
		g.gtab(other, s.data, "gtab:read-as-the-other-table")
	}

	// single subtable readers on the subtables of the seeds and their mutations
	rsub := r.Fork("sub")
	for k := 0; k < vlib.Count(tier, 260, 4000); k++ {
		table := vlib.Pick(rsub, []string{"gsub", "gpos"})
		kinds := c08d.GsubKinds
		if table == "gpos" {
			kinds = append(append([]string{}, c08d.GposKinds...), "gpos51")
		}
		kind := vlib.Pick(rsub, kinds)
		if kind == "gpos51" {
			continue // no encoder: exercised through the tables of harness/c08b
		}
		d := c08d.GenSub(rsub, kind, rsub.Intn(6))
		var enc []byte
		if pp, _ := c08d.Guard(func() { enc = gtab.VerifC08Encode(d.Build()) }); pp {
			continue
		}
		tp := c08d.LookupType(table, kind)
		pre := rsub.Intn(3)
		data := append(rsub.Bytes(pre), enc...)
		lb := "sub:valid"
		if rsub.Chance(3, 4) {
			var m []byte
			m, lb = mutate(rsub, enc)
			data = append(rsub.Bytes(pre), m...)
			lb = "sub:" + lb
		}
		if rsub.Chance(1, 10) {
			tp = rsub.Intn(12) // a lookup type the bytes were not written for
			lb += "+other-type"
		}
		g.sub(table, tp, data, pre, lb, "sub:kind:"+kind)
	}

	// offsets that alias: many offsets, one structure
	for _, c := range []struct {
		label string
		table string
		data  []byte
	}{
		{"lookups-30x30-to-one-gsub11(300 glyphs)", "gsub", lookupAliased(1, 30, 30, gsub11Cov(300))},
		{"lookups-200x1-to-one-gsub11", "gsub", lookupAliased(1, 200, 1, gsub11Cov(20))},
		{"lookups-1x2000-to-one-gsub11", "gsub", lookupAliased(1, 1, 2000, gsub11Cov(20))},
		{"lookups-3x1999: 6000 objects", "gsub", lookupAliased(1, 3, 1999, gsub11Cov(5))},
		{"lookups-3x2000: 6003 objects", "gsub", lookupAliased(1, 3, 2000, gsub11Cov(5))},
		{"gsub2_1-aliased-sequences-300", "gsub", lookupAliased(2, 1, 1, gsub21Aliased(300))},
		{"seq3-aliased-coverage-100x200", "gsub", lookupAliased(5, 1, 1, seq3Aliased(100, 200))},
		{"gpos2_1-aliased-pair-sets-100", "gpos", lookupAliased(2, 1, 1, gpos21Aliased(100))},
		{"seq3-aliased-coverage-100x200", "gpos", lookupAliased(7, 1, 1, seq3Aliased(100, 200))},
		{"extension-100-records-to-one-subtable", "gsub", extAliased(7, 1, 100, gsub11Cov(50), false)},
		{"extension-100-records-to-one-subtable", "gpos", extAliased(9, 7, 100, seq3Aliased(3, 10), false)},
		{"extension-records-pointing-at-extension-records", "gsub", extAliased(7, 1, 20, gsub11Cov(5), true)},
		{"extension-inner-type-is-the-extension-type", "gsub", extAliased(7, 7, 2, gsub11Cov(5), false)},
		{"extension-type-of-the-other-table", "gsub", extAliased(9, 1, 2, gsub11Cov(5), false)},
		{"scriptlist-40x40x40", "gsub", scriptAliased(40, 40, 40)},
		{"scriptlist-100x100x30: beyond the work budget", "gpos", scriptAliased(100, 100, 30)},
	} {
		g.gtab(c.table, c.data, "gtab:aliased", "gtab:aliased:"+c.label)
		for k := 0; k < vlib.Count(tier, 4, 40); k++ {
			m, lb := mutate(rm, c.data)
			g.gtab(c.table, m, "gtab:aliased-mutated", "gtab:"+lb)
		}
	}
	// the subtable readers directly on the aliased subtables (the decoded size
	// grows faster than the input: open findings of C02, here below the bound)
	for _, n := range []int{50, 300} {
		g.sub("gsub", 2, gsub21Aliased(n), 0, "sub:aliased", fmt.Sprintf("sub:gsub2_1-aliased-sequences-%d", n))
	}
	g.sub("gsub", 5, seq3Aliased(100, 1000), 0, "sub:aliased", "sub:seq3-aliased-coverage-100x1000")
	g.sub("gpos", 2, gpos21Aliased(120), 0, "sub:aliased", "sub:gpos2_1-aliased-pair-sets-120")
	g.sub("gpos", 8, seq3Aliased(10, 10), 0, "sub:aliased", "sub:seq3-bytes-as-chained-context")
}
