package main

import (
	"seehuhn.de/go/sfnt/verifharness/c02b"
	"seehuhn.de/go/sfnt/verifharness/vlib"
)

func main() { vlib.Main(c02b.Gen, c02b.RunCase) }
