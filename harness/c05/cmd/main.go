package main

import (
	"seehuhn.de/go/sfnt/verifharness/c05"
	"seehuhn.de/go/sfnt/verifharness/vlib"
)

func main() { vlib.Main(c05.Gen, c05.RunCase) }
