package c05

// A reference interpreter for Type 2 charstrings written from Adobe Technical
// Note #5177 (and TN #5176 section 16 for the subroutine bias).  It is the
// property oracle of C05: strict about operand counts, the 48-entry operand
// stack, 10 nested calls, 32 transient slots, endchar / return, and drawing
// before the first moveto.  All numbers are 16.16 fixed point, held as
// v*65536 in an int64.  Results the specification leaves undefined (overflow
// of the 16.16 range, inexact mul/div/sqrt, division by zero, random, get of
// an unwritten slot, the deprecated seac form of endchar, dotsection) are
// reported as "unspec": such programs are outside the compared domain.

import (
	"fmt"
	"math/big"
	"strings"
)

const (
	sc      = 65536
	fixMin  = -2147483648
	fixMax  = 2147483647
	clampAt = 32000 * sc
)

// Table is a subroutine INDEX in sparse form: Size entries, all equal to
// Default except the listed ones.
type Table struct {
	Size    int
	Default []byte
	Special map[int][]byte
}

func (t *Table) get(i int) []byte {
	if b, ok := t.Special[i]; ok {
		return b
	}
	return t.Default
}

// Dense materialises the table for the implementation.
func (t *Table) Dense() [][]byte {
	out := make([][]byte, t.Size)
	for i := range out {
		out[i] = t.Default
	}
	for i, b := range t.Special {
		if i >= 0 && i < t.Size {
			out[i] = b
		}
	}
	return out
}

type refCmd struct {
	kind byte // 'm' 'l' 'c' 'h'(hintmask) 'k'(cntrmask)
	a    []int64
	mask []byte
}

type refGlyph struct {
	width  int64
	hs, vs []int64
	cmds   []refCmd
}

// RefResult is the verdict of the reference interpreter.
type RefResult struct {
	Kind     string // "ok", "err", "unspec", "overbudget"
	Class    string // error class for "err"
	G        refGlyph
	BigDelta bool // some path delta exceeds 32000 in magnitude
	Ops      map[string]int
	MaxDepth int
	MaxStack int
	Steps    int // operands and operators executed
}

func (g *refGlyph) String() string {
	var b strings.Builder
	fmt.Fprintf(&b, "(ok %d (", g.width)
	for i, x := range g.hs {
		if i > 0 {
			b.WriteByte(' ')
		}
		fmt.Fprintf(&b, "%d", x)
	}
	b.WriteString(") (")
	for i, x := range g.vs {
		if i > 0 {
			b.WriteByte(' ')
		}
		fmt.Fprintf(&b, "%d", x)
	}
	b.WriteString(") (")
	for i, c := range g.cmds {
		if i > 0 {
			b.WriteByte(' ')
		}
		switch c.kind {
		case 'm', 'l', 'c':
			b.WriteByte('(')
			b.WriteByte(c.kind)
			for _, x := range c.a {
				fmt.Fprintf(&b, " %d", x)
			}
			b.WriteByte(')')
		case 'h':
			fmt.Fprintf(&b, "(hm x%x)", c.mask)
		case 'k':
			fmt.Fprintf(&b, "(cm x%x)", c.mask)
		}
	}
	b.WriteString("))")
	return b.String()
}

func (r *RefResult) String() string {
	switch r.Kind {
	case "ok":
		return r.G.String()
	case "err":
		return "err"
	}
	return r.Kind
}

type refStatus int

const (
	stFell refStatus = iota
	stDone
	stRet
	stErr
	stUnspec
	stBudget
)

// MaxSteps is the implementation limit on the number of operands and
// operators executed for one glyph (cff.maxT2Steps, through the hook).  The
// specification has no such limit; programs above it are a separate class
// (the implementation must reject them quickly instead of running for
// fan-out^depth steps).
var MaxSteps = 1 << 20

type refVM struct {
	stack          []int64
	trans          [32]int64
	transSet       [32]bool
	wset, hasWidth bool
	width          int64
	hopen          bool
	hs, vs         []int64
	cmds           []refCmd
	x, y           int64
	moved          bool
	subrs, gsubrs  *Table
	clamp          bool // emulate a clamp of every path delta to +-32000 (used to classify a known deviation)
	big            bool
	errClass       string
	ops            map[string]int
	maxDepth       int
	maxStack       int
	steps          int
}

// Reference runs the reference interpreter.  dflt and nom are the default and
// nominal widths (scaled).
func Reference(code []byte, subrs, gsubrs *Table, dflt, nom int64, clamp bool) *RefResult {
	vm := &refVM{hopen: true, subrs: subrs, gsubrs: gsubrs, clamp: clamp, ops: map[string]int{}}
	st := vm.run(code, 0)
	res := &RefResult{BigDelta: vm.big, Ops: vm.ops, MaxDepth: vm.maxDepth, MaxStack: vm.maxStack, Steps: vm.steps}
	switch st {
	case stDone:
		res.Kind = "ok"
		w := dflt
		if vm.hasWidth {
			w = vm.width + nom
		}
		res.G = refGlyph{width: w, hs: vm.hs, vs: vm.vs, cmds: vm.cmds}
	case stUnspec:
		res.Kind = "unspec"
	case stBudget:
		res.Kind = "overbudget"
	case stErr:
		res.Kind = "err"
		res.Class = vm.errClass
	default: // fell off the end, or return outside a subroutine
		res.Kind = "err"
		res.Class = "incomplete"
	}
	return res
}

func (vm *refVM) fail(class string) refStatus {
	vm.errClass = class
	return stErr
}

func bias(n int) int {
	switch {
	case n < 1240:
		return 107
	case n < 33900:
		return 1131
	}
	return 32768
}

func (vm *refVM) push(v int64) bool {
	if len(vm.stack) >= 48 {
		return false
	}
	vm.stack = append(vm.stack, v)
	if len(vm.stack) > vm.maxStack {
		vm.maxStack = len(vm.stack)
	}
	return true
}

func (vm *refVM) delta(d int64) int64 {
	if d > clampAt || d < -clampAt {
		vm.big = true
		if vm.clamp {
			if d > 0 {
				return clampAt
			}
			return -clampAt
		}
	}
	return d
}

func (vm *refVM) moveTo(dx, dy int64) {
	vm.x += vm.delta(dx)
	vm.y += vm.delta(dy)
	vm.cmds = append(vm.cmds, refCmd{kind: 'm', a: []int64{vm.x, vm.y}})
	vm.moved = true
	vm.hopen = false
}

func (vm *refVM) lineTo(dx, dy int64) {
	vm.x += vm.delta(dx)
	vm.y += vm.delta(dy)
	vm.cmds = append(vm.cmds, refCmd{kind: 'l', a: []int64{vm.x, vm.y}})
}

func (vm *refVM) curveTo(d [6]int64) {
	xa := vm.x + vm.delta(d[0])
	ya := vm.y + vm.delta(d[1])
	xb := xa + vm.delta(d[2])
	yb := ya + vm.delta(d[3])
	vm.x = xb + vm.delta(d[4])
	vm.y = yb + vm.delta(d[5])
	vm.cmds = append(vm.cmds, refCmd{kind: 'c', a: []int64{xa, ya, xb, yb, vm.x, vm.y}})
}

// takeWidth removes the leading width operand when extra is set.
func (vm *refVM) takeWidth(extra bool) bool {
	if extra {
		if vm.wset || len(vm.stack) == 0 {
			return false
		}
		vm.hasWidth = true
		vm.width = vm.stack[0]
		vm.stack = vm.stack[1:]
	}
	vm.wset = true
	return true
}

func stemEdges(dst []int64, a []int64) []int64 {
	var prev int64
	for k := 0; k+1 < len(a); k += 2 {
		e1 := prev + a[k]
		e2 := e1 + a[k+1]
		dst = append(dst, e1, e2)
		prev = e2
	}
	return dst
}

var op1Names = map[byte]string{1: "hstem", 3: "vstem", 4: "vmoveto", 5: "rlineto", 6: "hlineto", 7: "vlineto",
	8: "rrcurveto", 10: "callsubr", 11: "return", 14: "endchar", 18: "hstemhm", 19: "hintmask", 20: "cntrmask",
	21: "rmoveto", 22: "hmoveto", 23: "vstemhm", 24: "rcurveline", 25: "rlinecurve", 26: "vvcurveto",
	27: "hhcurveto", 29: "callgsubr", 30: "vhcurveto", 31: "hvcurveto"}

var op2Names = map[byte]string{0: "dotsection", 3: "and", 4: "or", 5: "not", 9: "abs", 10: "add", 11: "sub",
	12: "div", 14: "neg", 15: "eq", 18: "drop", 20: "put", 21: "get", 22: "ifelse", 23: "random", 24: "mul",
	26: "sqrt", 27: "dup", 28: "exch", 29: "index", 30: "roll", 34: "hflex", 35: "flex", 36: "hflex1", 37: "flex1"}

func inRange(v int64) bool { return v >= fixMin && v <= fixMax }
func isInt(v int64) bool   { return v%sc == 0 }

func boolVal(b bool) int64 {
	if b {
		return sc
	}
	return 0
}

// run interprets one code segment (the charstring or a subroutine body).
func (vm *refVM) run(code []byte, depth int) refStatus {
	if depth > vm.maxDepth {
		vm.maxDepth = depth
	}
	pos := 0
	for pos < len(code) {
		vm.steps++
		if vm.steps > MaxSteps {
			return stBudget
		}
		b := code[pos]
		var v int64
		isNum := true
		switch {
		case b >= 32 && b <= 246:
			v = (int64(b) - 139) * sc
			pos++
		case b >= 247 && b <= 250:
			if pos+1 >= len(code) {
				return vm.fail("incomplete")
			}
			v = ((int64(b)-247)*256 + int64(code[pos+1]) + 108) * sc
			pos += 2
		case b >= 251 && b <= 254:
			if pos+1 >= len(code) {
				return vm.fail("incomplete")
			}
			v = (-(int64(b)-251)*256 - int64(code[pos+1]) - 108) * sc
			pos += 2
		case b == 28:
			if pos+2 >= len(code) {
				return vm.fail("incomplete")
			}
			v = int64(int16(uint16(code[pos+1])<<8|uint16(code[pos+2]))) * sc
			pos += 3
		case b == 255:
			if pos+4 >= len(code) {
				return vm.fail("incomplete")
			}
			v = int64(int32(uint32(code[pos+1])<<24 | uint32(code[pos+2])<<16 | uint32(code[pos+3])<<8 | uint32(code[pos+4])))
			pos += 5
		default:
			isNum = false
		}
		if isNum {
			if !vm.push(v) {
				return vm.fail("overflow")
			}
			continue
		}

		var name string
		if b == 12 {
			if pos+1 >= len(code) {
				return vm.fail("incomplete")
			}
			name = op2Names[code[pos+1]]
			pos += 2
		} else {
			name = op1Names[b]
			pos++
		}
		if name == "" {
			return vm.fail("badop")
		}
		vm.ops[name]++
		a := vm.stack
		n := len(a)

		draw := func(countOK bool, f func()) refStatus {
			if !countOK {
				return vm.fail("count")
			}
			if !vm.moved {
				return vm.fail("nomove")
			}
			f()
			vm.stack = vm.stack[:0]
			return stFell
		}
		st := stFell // stFell here means "continue"

		switch name {
		case "hstem", "hstemhm", "vstem", "vstemhm":
			if n < 2 {
				return vm.fail("count")
			}
			if !vm.hopen {
				return vm.fail("hint")
			}
			if !vm.takeWidth(n%2 == 1) {
				return vm.fail("count")
			}
			if name[0] == 'h' {
				vm.hs = stemEdges(vm.hs, vm.stack)
			} else {
				vm.vs = stemEdges(vm.vs, vm.stack)
			}
			vm.stack = vm.stack[:0]

		case "hintmask", "cntrmask":
			if n >= 2 && !vm.hopen {
				return vm.fail("hint")
			}
			if !vm.takeWidth(n%2 == 1) {
				return vm.fail("count")
			}
			vm.vs = stemEdges(vm.vs, vm.stack)
			vm.hopen = false
			ns := (len(vm.hs) + len(vm.vs)) / 2
			if ns == 0 {
				return vm.fail("hint")
			}
			k := (ns + 7) / 8
			if pos+k > len(code) {
				return vm.fail("incomplete")
			}
			kind := byte('h')
			if name == "cntrmask" {
				kind = 'k'
			}
			vm.cmds = append(vm.cmds, refCmd{kind: kind, mask: append([]byte(nil), code[pos:pos+k]...)})
			pos += k
			vm.stack = vm.stack[:0]

		case "rmoveto", "hmoveto", "vmoveto":
			want := 1
			if name == "rmoveto" {
				want = 2
			}
			if n != want && n != want+1 {
				return vm.fail("count")
			}
			if !vm.takeWidth(n == want+1) {
				return vm.fail("count")
			}
			a = vm.stack
			switch name {
			case "rmoveto":
				vm.moveTo(a[0], a[1])
			case "hmoveto":
				vm.moveTo(a[0], 0)
			default:
				vm.moveTo(0, a[0])
			}
			vm.stack = vm.stack[:0]

		case "rlineto":
			st = draw(n >= 2 && n%2 == 0, func() {
				for i := 0; i < n; i += 2 {
					vm.lineTo(a[i], a[i+1])
				}
			})
		case "hlineto", "vlineto":
			st = draw(n >= 1, func() {
				h := name == "hlineto"
				for i := 0; i < n; i++ {
					if h {
						vm.lineTo(a[i], 0)
					} else {
						vm.lineTo(0, a[i])
					}
					h = !h
				}
			})
		case "rrcurveto":
			st = draw(n >= 6 && n%6 == 0, func() {
				for i := 0; i < n; i += 6 {
					vm.curveTo([6]int64{a[i], a[i+1], a[i+2], a[i+3], a[i+4], a[i+5]})
				}
			})
		case "hhcurveto":
			st = draw(n >= 4 && n%4 <= 1, func() {
				i := 0
				var dy1 int64
				if n%4 == 1 {
					dy1 = a[0]
					i = 1
				}
				for ; i < n; i += 4 {
					vm.curveTo([6]int64{a[i], dy1, a[i+1], a[i+2], a[i+3], 0})
					dy1 = 0
				}
			})
		case "vvcurveto":
			st = draw(n >= 4 && n%4 <= 1, func() {
				i := 0
				var dx1 int64
				if n%4 == 1 {
					dx1 = a[0]
					i = 1
				}
				for ; i < n; i += 4 {
					vm.curveTo([6]int64{dx1, a[i], a[i+1], a[i+2], 0, a[i+3]})
					dx1 = 0
				}
			})
		case "hvcurveto", "vhcurveto":
			st = draw(n >= 4 && n%4 <= 1, func() {
				h := name == "hvcurveto"
				for i := 0; i+4 <= n; i += 4 {
					var last int64
					if n-i == 5 {
						last = a[i+4]
					}
					if h {
						// starts horizontal, ends vertical
						vm.curveTo([6]int64{a[i], 0, a[i+1], a[i+2], last, a[i+3]})
					} else {
						vm.curveTo([6]int64{0, a[i], a[i+1], a[i+2], a[i+3], last})
					}
					h = !h
				}
			})
		case "rcurveline":
			st = draw(n >= 8 && (n-2)%6 == 0, func() {
				i := 0
				for ; i+6 <= n-2; i += 6 {
					vm.curveTo([6]int64{a[i], a[i+1], a[i+2], a[i+3], a[i+4], a[i+5]})
				}
				vm.lineTo(a[n-2], a[n-1])
			})
		case "rlinecurve":
			st = draw(n >= 8 && n%2 == 0, func() {
				i := 0
				for ; i < n-6; i += 2 {
					vm.lineTo(a[i], a[i+1])
				}
				vm.curveTo([6]int64{a[i], a[i+1], a[i+2], a[i+3], a[i+4], a[i+5]})
			})
		case "flex":
			st = draw(n == 13, func() {
				vm.curveTo([6]int64{a[0], a[1], a[2], a[3], a[4], a[5]})
				vm.curveTo([6]int64{a[6], a[7], a[8], a[9], a[10], a[11]})
			})
		case "hflex":
			st = draw(n == 7, func() {
				vm.curveTo([6]int64{a[0], 0, a[1], a[2], a[3], 0})
				vm.curveTo([6]int64{a[4], 0, a[5], -a[2], a[6], 0})
			})
		case "hflex1":
			st = draw(n == 9, func() {
				vm.curveTo([6]int64{a[0], a[1], a[2], a[3], a[4], 0})
				vm.curveTo([6]int64{a[5], 0, a[6], a[7], a[8], -(a[1] + a[3] + a[7])})
			})
		case "flex1":
			st = draw(n == 11, func() {
				dx := a[0] + a[2] + a[4] + a[6] + a[8]
				dy := a[1] + a[3] + a[5] + a[7] + a[9]
				vm.curveTo([6]int64{a[0], a[1], a[2], a[3], a[4], a[5]})
				adx, ady := dx, dy
				if adx < 0 {
					adx = -adx
				}
				if ady < 0 {
					ady = -ady
				}
				if adx > ady {
					// last point: x from d6, y back at the start of the flex
					vm.curveTo([6]int64{a[6], a[7], a[8], a[9], a[10], -dy})
				} else {
					vm.curveTo([6]int64{a[6], a[7], a[8], a[9], -dx, a[10]})
				}
			})

		case "endchar":
			switch {
			case n == 0:
				vm.wset = true
			case n == 1:
				if !vm.takeWidth(true) {
					return vm.fail("count")
				}
			case n == 4 || (n == 5 && !vm.wset):
				return stUnspec
			default:
				return vm.fail("count")
			}
			return stDone
		case "return":
			return stRet
		case "callsubr", "callgsubr":
			if n < 1 {
				return vm.fail("underflow")
			}
			v := a[n-1]
			if !isInt(v) {
				return stUnspec
			}
			vm.stack = vm.stack[:n-1]
			if depth >= 10 {
				return vm.fail("depth")
			}
			t := vm.subrs
			if name == "callgsubr" {
				t = vm.gsubrs
			}
			idx := int(v/sc) + bias(t.Size)
			if idx < 0 || idx >= t.Size {
				return vm.fail("badsubr")
			}
			switch s := vm.run(t.get(idx), depth+1); s {
			case stRet:
			case stFell:
				return vm.fail("incomplete")
			default:
				return s
			}

		default:
			st = vm.arith(name)
		}
		if st != stFell {
			return st
		}
	}
	return stFell
}

func (vm *refVM) arith(name string) refStatus {
	a := vm.stack
	n := len(a)
	need := map[string]int{"abs": 1, "neg": 1, "sqrt": 1, "drop": 1, "dup": 1, "not": 1, "get": 1, "index": 1,
		"add": 2, "sub": 2, "mul": 2, "div": 2, "exch": 2, "eq": 2, "and": 2, "or": 2, "put": 2, "roll": 2,
		"ifelse": 4, "random": 0, "dotsection": 0}[name]
	if n < need {
		return vm.fail("underflow")
	}
	ranged := func(k int, v int64) refStatus { // replace the k topmost by v
		if !inRange(v) {
			return stUnspec
		}
		vm.stack = append(vm.stack[:n-k], v)
		return stFell
	}
	switch name {
	case "random", "dotsection":
		return stUnspec
	case "abs":
		v := a[n-1]
		if v < 0 {
			v = -v
		}
		return ranged(1, v)
	case "neg":
		return ranged(1, -a[n-1])
	case "add":
		return ranged(2, a[n-2]+a[n-1])
	case "sub":
		return ranged(2, a[n-2]-a[n-1])
	case "mul":
		p := new(big.Int).Mul(big.NewInt(a[n-2]), big.NewInt(a[n-1]))
		q, m := new(big.Int).DivMod(p, big.NewInt(sc), new(big.Int))
		if m.Sign() != 0 || !q.IsInt64() {
			return stUnspec
		}
		return ranged(2, q.Int64())
	case "div":
		if a[n-1] == 0 {
			return stUnspec
		}
		p := new(big.Int).Mul(big.NewInt(a[n-2]), big.NewInt(sc))
		q, m := new(big.Int).QuoRem(p, big.NewInt(a[n-1]), new(big.Int))
		if m.Sign() != 0 || !q.IsInt64() {
			return stUnspec
		}
		return ranged(2, q.Int64())
	case "sqrt":
		if a[n-1] < 0 {
			return stUnspec
		}
		p := new(big.Int).Mul(big.NewInt(a[n-1]), big.NewInt(sc))
		r := new(big.Int).Sqrt(p)
		if new(big.Int).Mul(r, r).Cmp(p) != 0 {
			return stUnspec
		}
		return ranged(1, r.Int64())
	case "drop":
		vm.stack = a[:n-1]
	case "exch":
		a[n-2], a[n-1] = a[n-1], a[n-2]
	case "dup":
		if !vm.push(a[n-1]) {
			return vm.fail("overflow")
		}
	case "index":
		i := a[n-1]
		if !isInt(i) {
			return stUnspec
		}
		k := int(i / sc)
		if k < 0 {
			k = 0
		}
		// operands below the index operand: a[0..n-2]; element k counted from the top
		if k > n-2 {
			return vm.fail("underflow")
		}
		a[n-1] = a[n-2-k]
	case "roll":
		cnt, j := a[n-2], a[n-1]
		if !isInt(cnt) || !isInt(j) {
			return stUnspec
		}
		c, jj := int(cnt/sc), int(j/sc)
		if c < 0 {
			return stUnspec
		}
		if c > n-2 {
			return vm.fail("underflow")
		}
		vm.stack = a[:n-2]
		if c > 0 {
			// "num(N-1) ... num0 N J roll  =>  num((J-1) mod N) ... num0 num(N-1) ... num(J mod N)"
			data := append([]int64(nil), vm.stack[n-2-c:]...)
			s := ((jj % c) + c) % c
			for i := 0; i < c; i++ {
				vm.stack[n-2-c+(i+s)%c] = data[i]
			}
		}
	case "put":
		i := a[n-1]
		if !isInt(i) {
			return stUnspec
		}
		k := i / sc
		if k < 0 || k >= 32 {
			return vm.fail("index")
		}
		vm.trans[k] = a[n-2]
		vm.transSet[k] = true
		vm.stack = a[:n-2]
	case "get":
		i := a[n-1]
		if !isInt(i) {
			return stUnspec
		}
		k := i / sc
		if k < 0 || k >= 32 {
			return vm.fail("index")
		}
		if !vm.transSet[k] {
			return stUnspec
		}
		a[n-1] = vm.trans[k]
	case "and":
		vm.stack = append(a[:n-2], boolVal(a[n-2] != 0 && a[n-1] != 0))
	case "or":
		vm.stack = append(a[:n-2], boolVal(a[n-2] != 0 || a[n-1] != 0))
	case "not":
		a[n-1] = boolVal(a[n-1] == 0)
	case "eq":
		vm.stack = append(a[:n-2], boolVal(a[n-2] == a[n-1]))
	case "ifelse":
		v := a[n-3]
		s1, s2, v1, v2 := a[n-4], a[n-3], a[n-2], a[n-1]
		if v1 <= v2 {
			v = s1
		} else {
			v = s2
		}
		vm.stack = append(a[:n-4], v)
	}
	return stFell
}
