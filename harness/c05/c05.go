// Package c05 checks cff's Type 2 charstring interpreter against the
// specification: generated programs (every operator, all number encodings,
// subroutine tables crossing both bias thresholds, nesting up to the limit)
// and single-fault mutations are run through the implementation, through the
// harness's reference interpreter (the property oracle) and, by the check
// driver, through the Coq specification S_t2.
package c05

import (
	"errors"
	"fmt"
	"math"
	"strings"
	"time"

	"seehuhn.de/go/sfnt/cff"
	"seehuhn.de/go/sfnt/verifharness/vlib"
)

func init() { MaxSteps = cff.VerifC05MaxSteps }

// Signatures of the open findings: exactly these classes are excluded from
// the comparison; every other disagreement is a violation.
const (
	sigCount = "t2-operand-count-not-checked"
	sigClamp = "t2-path-delta-above-32000-clamped"
	sigOther = "c05-spec-mismatch"
)

func tableSx(t *Table) vlib.Sx {
	l := vlib.List{vlib.Int(t.Size), vlib.Hex(t.Default)}
	for _, k := range sortedKeys(t.Special) {
		if k >= 0 && k < t.Size {
			l = append(l, vlib.L(vlib.Int(k), vlib.Hex(t.Special[k])))
		}
	}
	return l
}

func caseLine(p *Prog) string {
	return vlib.Line(vlib.Atom("t2"), vlib.I64(p.Dflt), vlib.I64(p.Nom), vlib.Hex(p.Code), tableSx(p.Subrs), tableSx(p.Gsubrs))
}

func scaled(f float64) (int64, bool) {
	x := f * sc
	if math.IsNaN(x) || math.IsInf(x, 0) || math.Abs(x) > 1<<52 || x != math.Trunc(x) {
		return 0, false
	}
	return int64(x), true
}

// runImpl executes the implementation and renders the glyph in the model's
// output syntax.
func runImpl(p *Prog) string {
	// watchdog: the code under test may run for fan-out^depth steps
	done := make(chan string, 1)
	go func() { done <- runImpl1(p) }()
	select {
	case out := <-done:
		return out
	case <-time.After(5 * time.Second):
		return "timeout"
	}
}

func runImpl1(p *Prog) (out string) {
	defer func() {
		if e := recover(); e != nil {
			out = "panic"
		}
	}()
	g, err := cff.VerifC05Decode(p.Code, p.Subrs.Dense(), p.Gsubrs.Dense(), float64(p.Dflt)/sc, float64(p.Nom)/sc)
	if err != nil {
		return "err"
	}
	bad := false
	conv := func(f float64) int64 {
		v, ok := scaled(f)
		if !ok {
			bad = true
		}
		return v
	}
	rg := refGlyph{width: conv(g.Width)}
	for _, x := range g.HStem {
		rg.hs = append(rg.hs, conv(x))
	}
	for _, x := range g.VStem {
		rg.vs = append(rg.vs, conv(x))
	}
	for _, c := range g.Cmds {
		switch c.Op {
		case cff.OpMoveTo, cff.OpLineTo, cff.OpCurveTo:
			k := byte('m')
			if c.Op == cff.OpLineTo {
				k = 'l'
			} else if c.Op == cff.OpCurveTo {
				k = 'c'
			}
			rc := refCmd{kind: k}
			for _, a := range c.Args {
				rc.a = append(rc.a, conv(a))
			}
			rg.cmds = append(rg.cmds, rc)
		case cff.OpHintMask, cff.OpCntrMask:
			k := byte('h')
			if c.Op == cff.OpCntrMask {
				k = 'k'
			}
			rc := refCmd{kind: k}
			for _, a := range c.Args {
				rc.mask = append(rc.mask, byte(a))
			}
			rg.cmds = append(rg.cmds, rc)
		default:
			bad = true
		}
	}
	if bad {
		return "(offgrid)"
	}
	return rg.String()
}

// verdict is the property oracle: the implementation's observation against
// the reference interpreter's.  excluded = the case belongs to a class that
// is reported as an open finding and is not compared with the model.
func verdict(p *Prog, impl string) (ref *RefResult, fail, sig string, excluded bool) {
	ref = Reference(p.Code, p.Subrs, p.Gsubrs, p.Dflt, p.Nom, false)
	want := ref.String()
	if ref.Kind == "unspec" {
		// outside the specification's defined behaviour: only "no panic" is required
		if impl == "panic" {
			return ref, "panic on a program with unspecified result", "c05-panic", true
		}
		return ref, "", "", true
	}
	if ref.Kind == "overbudget" {
		// more than maxT2Steps operands/operators: an implementation limit, not part of
		// the specification; the implementation must refuse (and do so quickly)
		if impl != "err" {
			return ref, "program above the step budget not rejected: " + clip(impl), "c05-step-budget-not-enforced", true
		}
		return ref, "", "", true
	}
	if ref.Kind == "err" && ref.Class == "count" {
		excluded = true
		if impl != "err" {
			return ref, "illegal operand count accepted: implementation " + clip(impl) + ", specification: error (operand count)", sigCount, true
		}
		return ref, "", "", true
	}
	if ref.Kind == "ok" && ref.BigDelta {
		excluded = true
		if impl == want {
			return ref, "", "", true
		}
		cl := Reference(p.Code, p.Subrs, p.Gsubrs, p.Dflt, p.Nom, true)
		if impl == cl.String() {
			return ref, "path delta above 32000 clamped: implementation " + clip(impl) + ", specification " + clip(want), sigClamp, true
		}
		return ref, "implementation " + clip(impl) + ", specification " + clip(want), sigOther, true
	}
	if impl != want {
		return ref, "implementation " + clip(impl) + ", specification " + clip(want), sigOther, false
	}
	return ref, "", "", false
}

func clip(s string) string {
	if len(s) > 400 {
		return s[:400] + "..."
	}
	return s
}

// RunCase re-executes one case line.
func RunCase(line string) (impl, fail, sig string, err error) {
	line = strings.TrimPrefix(line, "!")
	items, err := vlib.Parse(line)
	if err != nil {
		return "", "", "", err
	}
	if len(items) == 0 {
		return "", "", "", errors.New("empty case")
	}
	kind, _ := vlib.AsAtom(items[0])
	switch kind {
	case "t2":
		if len(items) != 6 {
			return "", "", "", errors.New("t2 case: want 6 items")
		}
		p := &Prog{}
		if p.Dflt, err = vlib.AsI64(items[1]); err != nil {
			return
		}
		if p.Nom, err = vlib.AsI64(items[2]); err != nil {
			return
		}
		if p.Code, err = vlib.AsBytes(items[3]); err != nil {
			return
		}
		if p.Subrs, err = parseTable(items[4]); err != nil {
			return
		}
		if p.Gsubrs, err = parseTable(items[5]); err != nil {
			return
		}
		impl = runImpl(p)
		_, fail, sig, _ = verdict(p, impl)
		return impl, fail, sig, nil
	case "subridx":
		if len(items) != 3 {
			return "", "", "", errors.New("subridx case: want 3 items")
		}
		k, _ := vlib.AsAtom(items[1])
		e, err := vlib.AsInt(items[2])
		if err != nil {
			return "", "", "", err
		}
		return subrIdxCase(k, e)
	case "cidpriv":
		if len(items) != 6 {
			return "", "", "", errors.New("cidpriv case: want 6 items")
		}
		var a [5]string
		for i := range a {
			a[i], _ = vlib.AsAtom(items[1+i])
		}
		return cidprivCase(a[0], a[1], a[2], a[3], a[4])
	case "privw":
		if len(items) != 4 {
			return "", "", "", errors.New("privw case: want 4 items")
		}
		a1, _ := vlib.AsAtom(items[1])
		a2, _ := vlib.AsAtom(items[2])
		a3, _ := vlib.AsAtom(items[3])
		return privwCase(a1, a2, a3)
	case "bias":
		if len(items) != 3 {
			return "", "", "", errors.New("bias case: want 3 items")
		}
		n, e1 := vlib.AsInt(items[1])
		b, e2 := vlib.AsInt(items[2])
		if e1 != nil || e2 != nil {
			return "", "", "", errors.New("bad bias case")
		}
		impl, fail, sig = biasCase(n, b)
		return impl, fail, sig, nil
	}
	return "", "", "", errors.New("unknown case kind")
}

func parseTable(x vlib.Sx) (*Table, error) {
	l, err := vlib.AsList(x)
	if err != nil || len(l) < 2 {
		return nil, errors.New("bad table")
	}
	t := &Table{Special: map[int][]byte{}}
	if t.Size, err = vlib.AsInt(l[0]); err != nil {
		return nil, err
	}
	if t.Size < 0 || t.Size > 70000 {
		return nil, errors.New("table size out of range")
	}
	if t.Default, err = vlib.AsBytes(l[1]); err != nil {
		return nil, err
	}
	for _, e := range l[2:] {
		pr, err := vlib.AsList(e)
		if err != nil || len(pr) != 2 {
			return nil, errors.New("bad table entry")
		}
		i, err := vlib.AsInt(pr[0])
		if err != nil {
			return nil, err
		}
		b, err := vlib.AsBytes(pr[1])
		if err != nil {
			return nil, err
		}
		t.Special[i] = b
	}
	return t, nil
}

// ---- bias cases ----

var denseCache = map[int][][]byte{}

func numberedTable(n int) [][]byte {
	if t, ok := denseCache[n]; ok {
		return t
	}
	t := make([][]byte, n)
	for i := range t {
		t[i] = []byte{byte(i >> 16), byte(i >> 8), byte(i)}
	}
	denseCache[n] = t
	return t
}

// biasCase calls getSubr on a table whose i-th entry names i.
func biasCase(n, biased int) (impl, fail, sig string) {
	func() {
		defer func() {
			if e := recover(); e != nil {
				impl = "panic"
			}
		}()
		b, err := cff.VerifC05GetSubr(numberedTable(n), biased)
		if err != nil {
			impl = "bad"
			return
		}
		if len(b) != 3 {
			impl = "(garbled)"
			return
		}
		impl = fmt.Sprintf("(sub %d)", int(b[0])<<16|int(b[1])<<8|int(b[2]))
	}()
	// the property, stated directly (TN5176 section 16)
	bs := 32768
	if n < 1240 {
		bs = 107
	} else if n < 33900 {
		bs = 1131
	}
	want := "bad"
	if i := biased + bs; i >= 0 && i < n {
		want = fmt.Sprintf("(sub %d)", i)
	}
	if impl != want {
		return impl, "getSubr: implementation " + impl + ", specification " + want, "c05-bias-mismatch"
	}
	return impl, "", ""
}

// ---- generation ----

type stats struct {
	run *vlib.Run
}

func addProg(run *vlib.Run, p *Prog, labels ...string) {
	impl := runImpl(p)
	ref, fail, sig, excluded := verdict(p, impl)
	cl := caseLine(p)
	if excluded {
		cl = "!" + cl
	}
	labels = append(labels, "spec:"+ref.Kind)
	if ref.Kind == "err" {
		labels = append(labels, "errclass:"+ref.Class)
	}
	for name := range ref.Ops {
		labels = append(labels, "op:"+name)
	}
	labels = append(labels, fmt.Sprintf("calldepth:%d", ref.MaxDepth))
	if ref.MaxStack >= 48 {
		labels = append(labels, "stack:48")
	}
	if len(p.Subrs.Special)+len(p.Gsubrs.Special) > 0 {
		labels = append(labels, fmt.Sprintf("subrs:%d", p.Subrs.Size), fmt.Sprintf("gsubrs:%d", p.Gsubrs.Size))
	}
	nontrivial := ref.Kind == "err" || len(ref.G.cmds) >= 3 || len(ref.G.hs)+len(ref.G.vs) > 0 || ref.MaxDepth > 0
	idx := run.Add(cl, impl, nontrivial, labels...)
	if fail != "" {
		report(run, idx, cl, fail, sig)
	}
}

// report records an oracle failure; the recorded list is capped by vlib, so
// the classes that are known open findings are limited to a few witnesses
// each and can never crowd out another failure.
var reported = map[string]int{}

func report(run *vlib.Run, idx int, cl, fail, sig string) {
	if sig == sigCount || sig == sigClamp {
		reported[sig]++
		if reported[sig] > 25 {
			run.Hist["known-finding-not-listed:"+sig]++
			return
		}
	}
	run.Fail(idx, cl, fail, sig)
}

// wellFormed generates one program the reference accepts (with retries).
func wellFormed(r *vlib.Rand, c *gcfg, withSubrs int, deep bool, bigTables bool) (*Prog, []tok) {
	for try := 0; try < 200; try++ {
		ts, _ := program(r, c)
		d, n := pickWidths(r)
		p := &Prog{Code: flatten(ts), Dflt: d, Nom: n,
			Subrs: newTable(r, pickTableSize(r, bigTables)), Gsubrs: newTable(r, pickTableSize(r, bigTables))}
		ref := Reference(p.Code, p.Subrs, p.Gsubrs, d, n, false)
		if ref.Kind != "ok" || (ref.BigDelta && !c.allowBig) || (c.allowBig && !ref.BigDelta) {
			continue
		}
		if withSubrs > 0 {
			s2, g2 := cloneTable(p.Subrs), cloneTable(p.Gsubrs)
			if s2.Size == 0 && g2.Size == 0 {
				s2.Size = 1
			}
			wt := wrap(r, ts, s2, g2, withSubrs, deep, 10)
			q := &Prog{Code: flatten(wt), Dflt: d, Nom: n, Subrs: s2, Gsubrs: g2}
			ref2 := Reference(q.Code, s2, g2, d, n, false)
			if ref2.String() == ref.String() && ref2.Kind == "ok" {
				return q, wt
			}
			continue
		}
		return p, ts
	}
	panic("generator: no well-formed program found")
}

// Gen writes the run for the given tier.
func Gen(run *vlib.Run, seed uint64, tier string) {
	run.Rule = "Type 2 charstring with subroutine tables and widths; non-trivial = the specification rejects it, or it has at least 3 path/mask commands, or stems, or a subroutine call; distinct by (code, tables, widths)"
	r := vlib.NewRand(seed)
	genPrivw(run)
	genCidPriv(run)
	genSubrIdx(run)
	plain := &gcfg{arith: 0, frac: 15}
	arith := &gcfg{arith: 18, frac: 15}
	heavy := &gcfg{arith: 60, frac: 30}

	// (1) operand decoding: every 1- and 2-byte encoding, boundary 3- and
	// 5-byte encodings, read back through stem edges (no path clamp involved)
	{
		var all [][]byte
		for b := 32; b <= 254; b++ {
			if b <= 246 {
				all = append(all, []byte{byte(b)})
			} else {
				for _, w := range []int{0, 1, 2, 127, 128, 254, 255} {
					all = append(all, []byte{byte(b), byte(w)})
				}
				if tier == "thorough" {
					for w := 3; w < 254; w++ {
						all = append(all, []byte{byte(b), byte(w)})
					}
				}
			}
		}
		for _, v := range []int{0, 1, -1, 107, 108, -107, -108, 1131, 1132, -1131, -1132, 32767, -32768, 255, 256, -256, 0x7f00, -0x7f01} {
			all = append(all, encShort(int64(v)))
		}
		for _, v := range []int64{0, 1, -1, 65535, 65536, 65537, -65535, -65536, -65537, fixMax, fixMin, fixMax - 1, fixMin + 1, 0x12345678, -0x12345678, 32768, -32768, 32000 * sc, -32000 * sc, 32000*sc + 1} {
			all = append(all, encFixed(v))
		}
		nr := vlib.Count(tier, 40, 400)
		for i := 0; i < nr; i++ {
			all = append(all, encFixed(int64(int32(r.Uint64()))), encShort(int64(int16(r.Uint64()))))
		}
		for len(all) > 0 {
			k := 48
			if k > len(all) {
				k = len(all) &^ 1
				if k == 0 {
					all = append(all, []byte{139})
					k = 2
				}
			}
			var code []byte
			for _, e := range all[:k] {
				code = append(code, e...)
			}
			all = all[k:]
			op := vlib.Pick(r, []byte{1, 3, 18, 23})
			code = append(code, op, 14)
			d, n := pickWidths(r)
			addProg(run, &Prog{Code: code, Dflt: d, Nom: n, Subrs: newTable(r, 0), Gsubrs: newTable(r, 0)}, "stream:numbers")
		}
	}

	// (2) every drawing operator with every legal operand count
	for _, op := range drawOps {
		lc := legalCounts(op)
		reps := vlib.Count(tier, 3, 40)
		for _, n := range lc {
			for k := 0; k < reps; k++ {
				var ts []tok
				ts = append(ts, operands(r, plain, []int64{deltaVal(r, plain), deltaVal(r, plain)}, 0)...)
				ts = append(ts, opTok("rmoveto"))
				ts = append(ts, drawTok(r, plain, op, n)...)
				ts = append(ts, opTok("endchar"))
				d, nm := pickWidths(r)
				p := &Prog{Code: flatten(ts), Dflt: d, Nom: nm, Subrs: newTable(r, 0), Gsubrs: newTable(r, 0)}
				addProg(run, p, "stream:operator-counts")
			}
		}
	}

	// (3) grammar-generated well-formed programs
	nw := vlib.Count(tier, 4000, 100000)
	for i := 0; i < nw; i++ {
		c := plain
		switch i % 4 {
		case 1, 2:
			c = arith
		case 3:
			c = heavy
		}
		ns := 0
		if i%2 == 1 {
			ns = r.Range(1, 6)
		}
		p, _ := wellFormed(r, c, ns, false, i%10 == 9)
		addProg(run, p, "stream:wellformed")
	}

	// (4) subroutine tables of every listed size, local and global, nesting to depth 10
	for _, sz := range tableSizes {
		reps := vlib.Count(tier, 20, 400)
		for k := 0; k < reps; k++ {
			for try := 0; try < 50; try++ {
				ts, _ := program(r, arith)
				d, n := pickWidths(r)
				s, g := newTable(r, sz), newTable(r, vlib.Pick(r, tableSizes))
				if k%2 == 1 {
					s, g = g, s
				}
				if s.Size == 0 && g.Size == 0 {
					if sz != 0 {
						continue
					}
					// both tables empty: any call is an error (malformed stream below); plain program here
					p := &Prog{Code: flatten(ts), Dflt: d, Nom: n, Subrs: s, Gsubrs: g}
					if Reference(p.Code, s, g, d, n, false).Kind == "ok" && !Reference(p.Code, s, g, d, n, false).BigDelta {
						addProg(run, p, "stream:tables")
						break
					}
					continue
				}
				base := Reference(flatten(ts), s, g, d, n, false)
				if base.Kind != "ok" || base.BigDelta {
					continue
				}
				deep := k%3 == 2
				nwr := r.Range(1, 8)
				if deep {
					nwr = vlib.Pick(r, []int{9, 10})
				}
				wt := wrap(r, ts, s, g, nwr, deep, 10)
				p := &Prog{Code: flatten(wt), Dflt: d, Nom: n, Subrs: s, Gsubrs: g}
				if Reference(p.Code, s, g, d, n, false).String() != base.String() {
					continue
				}
				addProg(run, p, "stream:tables", fmt.Sprintf("tablesize:%d", sz))
				break
			}
		}
	}

	// (5) single-fault mutations
	nm := vlib.Count(tier, 250, 5000)
	for _, kind := range mutKinds {
		for i := 0; i < nm; i++ {
			var p *Prog
			switch kind {
			case "bad-subr":
				q, ts := wellFormed(r, plain, 0, false, i%3 == 0)
				t := q.Subrs
				name := "callsubr"
				if r.Bool() {
					t = q.Gsubrs
					name = "callgsubr"
				}
				b := bias(t.Size)
				idx := vlib.Pick(r, []int{t.Size, -1, t.Size + 1, -2, t.Size + r.Intn(1000)})
				if idx-b < -32768 || idx-b > 32767 {
					idx = t.Size
				}
				if idx-b < -32768 || idx-b > 32767 {
					idx = -1
				}
				if idx-b < -32768 || idx-b > 32767 {
					continue
				}
				pos := r.Intn(len(ts))
				nt := append([]tok(nil), ts[:pos]...)
				nt = append(nt, numTok(r, int64(idx-b)*sc), opTok(name))
				nt = append(nt, ts[pos:]...)
				p = &Prog{Code: flatten(nt), Dflt: q.Dflt, Nom: q.Nom, Subrs: q.Subrs, Gsubrs: q.Gsubrs}
			case "depth-11":
				ts, _ := program(r, plain)
				d, n := pickWidths(r)
				s, g := newTable(r, pickTableSize(r, false)), newTable(r, pickTableSize(r, false))
				if s.Size < 12 {
					s.Size = 12 + r.Intn(300)
				}
				wt := wrap(r, ts, s, g, 11+r.Intn(2), true, 99)
				p = &Prog{Code: flatten(wt), Dflt: d, Nom: n, Subrs: s, Gsubrs: g}
			case "truncate":
				q, _ := wellFormed(r, plain, 0, false, false)
				cut := r.Intn(len(q.Code))
				p = &Prog{Code: q.Code[:cut], Dflt: q.Dflt, Nom: q.Nom, Subrs: q.Subrs, Gsubrs: q.Gsubrs}
			default:
				var ok bool
				for try := 0; try < 100 && !ok; try++ {
					q, ts := wellFormed(r, plain, 0, false, false)
					var mt []tok
					mt, ok = mutate(r, kind, ts)
					if !ok {
						continue
					}
					s2, g2 := q.Subrs, q.Gsubrs
					if r.Chance(1, 4) && (s2.Size > 0 || g2.Size > 0) {
						s2, g2 = cloneTable(s2), cloneTable(g2)
						mt = wrap(r, mt, s2, g2, r.Range(1, 3), false, 10)
					}
					p = &Prog{Code: flatten(mt), Dflt: q.Dflt, Nom: q.Nom, Subrs: s2, Gsubrs: g2}
				}
				if !ok {
					continue
				}
			}
			ref := Reference(p.Code, p.Subrs, p.Gsubrs, p.Dflt, p.Nom, false)
			if ref.Kind == "unspec" {
				continue
			}
			lab := "mutation-still-wellformed:" + kind
			if ref.Kind == "err" {
				lab = "mutation:" + kind
			}
			addProg(run, p, "stream:malformed", lab)
		}
	}

	// (6) the excluded class "path delta above 32000" (reported as an open finding)
	nb := vlib.Count(tier, 100, 2000)
	bigc := &gcfg{arith: 5, frac: 10, allowBig: true}
	for i := 0; i < nb; i++ {
		p, _ := wellFormed(r, bigc, 0, false, false)
		addProg(run, p, "stream:delta-above-32000")
	}

	// (8) total work: nested calls multiply the number of executed operators
	// (fan-out^depth); the implementation must stay within its step budget
	fanout(run, r, tier)

	// (7) subroutine bias and range test
	var sizes []int
	for _, n := range []int{0, 1, 2, 107, 108, 215, 216, 1238, 1239, 1240, 1241, 2262, 2263, 33898, 33899, 33900, 33901, 40000, 65535, 65536} {
		sizes = append(sizes, n)
	}
	for i := vlib.Count(tier, 5, 200); i > 0; i-- {
		sizes = append(sizes, r.Intn(66000))
	}
	for _, n := range sizes {
		b := bias(n)
		cand := []int{-b - 1, -b, -b + 1, n - b - 1, n - b, n - b + 1, 0, -1, 1, -107, -108, -1131, -1132, -32768, 32767, r.Range(-32768, 32767)}
		for _, x := range cand {
			impl, fail, sig := biasCase(n, x)
			cl := vlib.Line(vlib.Atom("bias"), vlib.Int(n), vlib.Int(x))
			idx := run.Add(cl, impl, true, "stream:bias", fmt.Sprintf("bias:%d", b))
			if fail != "" {
				run.Fail(idx, cl, fail, sig)
			}
		}
	}
}

// fanProgram: subroutine i calls subroutine i+1 fan times (depth levels);
// the charstring calls subroutine 0 fan times.
func fanProgram(fan, depth int) *Prog {
	t := &Table{Size: depth, Default: []byte{11}, Special: map[int][]byte{}}
	for i := 0; i < depth; i++ {
		var b []byte
		if i+1 < depth {
			for k := 0; k < fan; k++ {
				b = append(b, byte(i+1-107+139), 10)
			}
		}
		t.Special[i] = append(b, 11)
	}
	var code []byte
	for k := 0; k < fan; k++ {
		code = append(code, byte(0-107+139), 10)
	}
	return &Prog{Code: append(code, 14), Subrs: t, Gsubrs: &Table{Special: map[int][]byte{}}}
}

// exactSteps builds a program that executes exactly n operands+operators:
// 0 0 rmoveto, calls of a filler subroutine, filler pairs (0 drop), endchar.
func exactSteps(n int) *Prog {
	const pairs = 1000
	var body []byte
	for i := 0; i < pairs; i++ {
		body = append(body, 139, 12, 18)
	}
	body = append(body, 11)
	perCall := 2 + 2*pairs + 1
	t := &Table{Size: 1, Default: []byte{11}, Special: map[int][]byte{0: body}}
	code := []byte{139, 139, 21}
	left := n - 3 - 1 // rmoveto sequence and endchar
	for left >= perCall+1 {
		code = append(code, 32, 10) // -107 callsubr
		left -= perCall
	}
	for left >= 2 {
		code = append(code, 139, 12, 18)
		left -= 2
	}
	if left == 1 {
		code = append(code, 239) // one more operand: the width
	}
	return &Prog{Code: append(code, 14), Subrs: t, Gsubrs: &Table{Special: map[int][]byte{}}}
}

func fanout(run *vlib.Run, r *vlib.Rand, tier string) {
	type fd struct{ fan, depth int }
	cases := []fd{{2, 10}, {3, 10}, {2, 5}, {4, 6}, {10, 3}, {4, 10}, {8, 10}, {20, 10}, {30, 10}, {100, 4}, {1000, 2}}
	for _, c := range cases {
		p := fanProgram(c.fan, c.depth)
		t0 := time.Now()
		impl := runImpl(p)
		el := time.Since(t0)
		ref, fail, sig, excluded := verdict(p, impl)
		cl := caseLine(p)
		if excluded {
			cl = "!" + cl
		}
		idx := run.Add(cl, impl, true, "stream:fanout", "spec:"+ref.Kind, fmt.Sprintf("fanout:%d^%d", c.fan, c.depth))
		if fail != "" {
			run.Fail(idx, cl, fail, sig)
		} else if el > 2*time.Second {
			run.Fail(idx, cl, fmt.Sprintf("decoding %d bytes took %v", len(p.Code)+c.depth*(2*c.fan+1), el), "c05-exponential-time")
		}
	}
	for _, n := range []int{MaxSteps - 1, MaxSteps, MaxSteps + 1, MaxSteps + 2} {
		p := exactSteps(n)
		impl := runImpl(p)
		ref, fail, sig, excluded := verdict(p, impl)
		cl := caseLine(p)
		if excluded {
			cl = "!" + cl
		}
		want := n
		if n > MaxSteps {
			want = MaxSteps + 1
		}
		idx := run.Add(cl, impl, true, "stream:step-budget-boundary", "spec:"+ref.Kind)
		if ref.Steps != want {
			run.Fail(idx, cl, fmt.Sprintf("generator: program executes %d steps, wanted %d", ref.Steps, n), "c05-generator")
		}
		if fail != "" {
			run.Fail(idx, cl, fail, sig)
		}
	}
}
