package c05

// Grammar-driven generator of Type 2 charstrings.  Programs are built as token
// lists (numbers in any of the five encodings, operators, mask data attached
// to the mask operator), so that ranges of tokens can be moved into local or
// global subroutines and single-fault mutations stay meaningful.

import (
	"fmt"
	"sort"

	"seehuhn.de/go/sfnt/verifharness/vlib"
)

type tok struct {
	b   []byte
	num bool
	op  string
}

// Prog is one case: a charstring, both subroutine tables, the two widths.
type Prog struct {
	Code          []byte
	Subrs, Gsubrs *Table
	Dflt, Nom     int64
}

var opBytes = map[string][]byte{}

func init() {
	for b, n := range op1Names {
		opBytes[n] = []byte{b}
	}
	for b, n := range op2Names {
		opBytes[n] = []byte{12, b}
	}
}

func opTok(name string) tok { return tok{b: opBytes[name], op: name} }

func flatten(ts []tok) []byte {
	var out []byte
	for _, t := range ts {
		out = append(out, t.b...)
	}
	return out
}

// ---- number encodings ----

func encShort(i int64) []byte { return []byte{28, byte(uint16(i) >> 8), byte(uint16(i))} }
func encFixed(v int64) []byte {
	u := uint32(int32(v))
	return []byte{255, byte(u >> 24), byte(u >> 16), byte(u >> 8), byte(u)}
}

// encodings returns every legal encoding of the scaled value v.
func encodings(v int64) [][]byte {
	var out [][]byte
	if v%sc == 0 {
		i := v / sc
		switch {
		case i >= -107 && i <= 107:
			out = append(out, []byte{byte(i + 139)})
		case i >= 108 && i <= 1131:
			out = append(out, []byte{byte((i-108)/256 + 247), byte((i - 108) % 256)})
		case i <= -108 && i >= -1131:
			out = append(out, []byte{byte((-i-108)/256 + 251), byte((-i - 108) % 256)})
		}
		if i >= -32768 && i <= 32767 {
			out = append(out, encShort(i))
		}
	}
	if v >= fixMin && v <= fixMax {
		out = append(out, encFixed(v))
	}
	return out
}

func numTok(r *vlib.Rand, v int64) tok {
	e := encodings(v)
	if len(e) == 0 {
		panic(fmt.Sprintf("value %d not encodable", v))
	}
	// prefer the shortest form, but use every form
	k := 0
	if r.Chance(1, 4) {
		k = r.Intn(len(e))
	}
	return tok{b: e[k], num: true}
}

// ---- values ----

type gcfg struct {
	arith    int  // chance (in 100) that an operand is an arithmetic expression
	allowBig bool // path deltas above 32000 (a separately reported class)
	frac     int  // chance (in 100) of a fractional value
}

func smallVal(r *vlib.Rand, c *gcfg) int64 {
	switch r.Intn(12) {
	case 0:
		return 0
	case 1:
		return vlib.Pick(r, []int64{1, -1, 107, -107, 108, -108, 1131, -1131, 1132, -1132}) * sc
	case 2:
		return int64(r.Range(-2000, 2000)) * sc
	case 3:
		if r.Intn(100) < c.frac*3 {
			return int64(r.Range(-300*sc, 300*sc))
		}
		return int64(r.Range(-300, 300)) * sc
	case 4:
		if r.Intn(100) < c.frac*3 {
			return int64(r.Range(-4, 4))*sc + vlib.Pick(r, []int64{1, -1, 32768, 16384, 65535, 3})
		}
	}
	if r.Intn(100) < c.frac {
		return int64(r.Range(-120*sc, 120*sc))
	}
	return int64(r.Range(-120, 120)) * sc
}

func deltaVal(r *vlib.Rand, c *gcfg) int64 {
	if r.Chance(1, 5) {
		return 0
	}
	if r.Chance(1, 60) {
		return vlib.Pick(r, []int64{32000, -32000, 31999, -31999, 20000, -25000}) * sc
	}
	if r.Chance(1, 90) {
		return vlib.Pick(r, []int64{32000*sc - 1, -32000*sc + 1, 12345*sc + 4321})
	}
	if c.allowBig && r.Chance(1, 6) {
		return vlib.Pick(r, []int64{32001 * sc, -32001 * sc, 32767 * sc, -32768 * sc, 32000*sc + 1, fixMax, fixMin, 32500*sc + 77})
	}
	return smallVal(r, c)
}

// value emits tokens that leave exactly one operand with value v on the stack,
// using at most room stack entries (room >= 1).
func value(r *vlib.Rand, c *gcfg, v int64, room, depth int) []tok {
	if depth <= 0 || room < 2 || r.Intn(100) >= c.arith {
		return []tok{numTok(r, v)}
	}
	sub := func(x int64, rm int) []tok { return value(r, c, x, rm, depth-1) }
	lit := []tok{numTok(r, v)}
	junk := func() int64 { return int64(r.Range(-50, 50)) * sc }
	cat := func(parts ...[]tok) []tok {
		var out []tok
		for _, p := range parts {
			out = append(out, p...)
		}
		return out
	}
	one := func(name string) []tok { return []tok{opTok(name)} }
	switch r.Intn(19) {
	case 0: // a b add
		a := int64(r.Range(-400*sc, 400*sc))
		if r.Bool() {
			a = a / sc * sc
		}
		if inRange(v - a) {
			return cat(sub(a, room), sub(v-a, room-1), one("add"))
		}
	case 1: // a b sub
		b := int64(r.Range(-400, 400)) * sc
		if inRange(v + b) {
			return cat(sub(v+b, room), sub(b, room-1), one("sub"))
		}
	case 2:
		if v != fixMin {
			return cat(sub(-v, room), one("neg"))
		}
	case 3:
		if v >= 0 {
			if r.Bool() && v != 0 {
				return cat(sub(-v, room), one("abs"))
			}
			return cat(sub(v, room), one("abs"))
		}
	case 4: // a b mul with an exact product
		b := vlib.Pick(r, []int64{2 * sc, 3 * sc, -4 * sc, sc / 2, sc / 4, -sc, 10 * sc, sc, 3 * sc / 2})
		// a = v / b must be exact: a*b/sc == v
		num := v * sc
		if num%b == 0 && inRange(num/b) && (num/b*b)%sc == 0 {
			a := num / b
			if r.Bool() {
				return cat(sub(a, room), sub(b, room-1), one("mul"))
			}
			return cat(sub(b, room), sub(a, room-1), one("mul"))
		}
	case 5: // a b div with an exact quotient
		b := vlib.Pick(r, []int64{2 * sc, 3 * sc, -4 * sc, sc / 2, sc / 4, -sc, 10 * sc, sc, 7 * sc, sc / 8})
		// a/b = v  with a = v*b/sc exact
		if (v*b)%sc == 0 && inRange(v*b/sc) && v < 1<<40 {
			a := v * b / sc
			if a*sc%b == 0 && a*sc/b == v {
				return cat(sub(a, room), sub(b, room-1), one("div"))
			}
		}
	case 6: // a sqrt
		if v >= 0 && (v*v)%sc == 0 && inRange(v*v/sc) {
			return cat(sub(v*v/sc, room), one("sqrt"))
		}
	case 7:
		return cat(sub(v, room), sub(junk(), room-1), one("drop"))
	case 8:
		return cat(sub(junk(), room), sub(v, room-1), one("exch"), one("drop"))
	case 9:
		if r.Bool() && v%2 == 0 && inRange(v/2) {
			return cat(sub(v/2, room), one("dup"), one("add"))
		}
		return cat(sub(v, room), one("dup"), one("drop"))
	case 10: // s1 s2 v1 v2 ifelse
		if room >= 4 {
			v1, v2 := junk(), junk()
			if r.Chance(1, 4) {
				v2 = v1
			}
			s1, s2 := v, junk()
			if v1 > v2 {
				s1, s2 = s2, s1
			}
			return cat(sub(s1, room), sub(s2, room-1), sub(v1, room-2), sub(v2, room-3), one("ifelse"))
		}
	case 11: // booleans
		if v == 0 || v == sc {
			want := v == sc
			switch r.Intn(4) {
			case 0: // eq
				a := junk()
				b := a
				if !want {
					b = a + sc
				}
				return cat(sub(a, room), sub(b, room-1), one("eq"))
			case 1: // not
				a := int64(0)
				if !want {
					a = junk() | 1
				}
				return cat(sub(a, room), one("not"))
			case 2: // and
				a, b := junk()|1, junk()|1
				if !want {
					if r.Bool() {
						a = 0
					} else {
						b = 0
					}
				}
				return cat(sub(a, room), sub(b, room-1), one("and"))
			default: // or
				a, b := int64(0), int64(0)
				if want {
					if r.Bool() {
						a = junk() | 1
					} else {
						b = junk() | 1
					}
				}
				return cat(sub(a, room), sub(b, room-1), one("or"))
			}
		}
	case 12: // v i put i get
		i := int64(vlib.Pick(r, []int{0, 1, 15, 30, 31, r.Intn(32)})) * sc
		return cat(sub(v, room), sub(i, room-1), one("put"), sub(i, room), one("get"))
	case 13, 14: // k values, roll, index, roll, drops
		k := r.Range(1, 5)
		if room >= k+3 {
			vals := make([]int64, k)
			p := r.Intn(k)
			for i := range vals {
				vals[i] = junk()
			}
			vals[p] = v
			var out []tok
			for i, x := range vals {
				out = append(out, sub(x, room-i)...)
			}
			j := r.Range(-7, 7)
			out = append(out, numTok(r, int64(k)*sc), numTok(r, int64(j)*sc), opTok("roll"))
			// position of v from the top after the roll
			s := ((j % k) + k) % k
			np := (p + s) % k // index from the bottom of the k elements
			fromTop := k - 1 - np
			out = append(out, numTok(r, int64(fromTop)*sc), opTok("index"))
			out = append(out, numTok(r, int64(k+1)*sc), numTok(r, sc), opTok("roll"))
			for i := 0; i < k; i++ {
				out = append(out, opTok("drop"))
			}
			return out
		}
	case 15: // negative index copies the top
		return cat(sub(v, room), numTok1(r, int64(-r.Range(1, 5))*sc), one("index"), one("exch"), one("drop"))
	case 16: // roll with a zero count leaves the stack unchanged
		if room < 3 {
			return lit
		}
		return cat(sub(v, room), numTok1(r, 0), numTok1(r, int64(r.Range(-3, 3))*sc), one("roll"))
	}
	return lit
}

func numTok1(r *vlib.Rand, v int64) []tok { return []tok{numTok(r, v)} }

// operands emits n operand expressions; the stack holds base entries before.
func operands(r *vlib.Rand, c *gcfg, vals []int64, base int) []tok {
	var out []tok
	for i, v := range vals {
		room := 48 - base - i
		out = append(out, value(r, c, v, room, 2)...)
	}
	return out
}

// ---- program structure ----

var drawOps = []string{"rlineto", "hlineto", "vlineto", "rrcurveto", "hhcurveto", "vvcurveto", "hvcurveto",
	"vhcurveto", "rcurveline", "rlinecurve", "flex", "hflex", "hflex1", "flex1"}

// legalCounts lists the operand counts the specification allows (up to 48).
func legalCounts(op string) []int {
	var out []int
	for n := 0; n <= 48; n++ {
		ok := false
		switch op {
		case "rlineto":
			ok = n >= 2 && n%2 == 0
		case "hlineto", "vlineto":
			ok = n >= 1
		case "rrcurveto":
			ok = n >= 6 && n%6 == 0
		case "hhcurveto", "vvcurveto", "hvcurveto", "vhcurveto":
			ok = n >= 4 && n%4 <= 1
		case "rcurveline":
			ok = n >= 8 && (n-2)%6 == 0
		case "rlinecurve":
			ok = n >= 8 && n%2 == 0
		case "flex":
			ok = n == 13
		case "hflex":
			ok = n == 7
		case "hflex1":
			ok = n == 9
		case "flex1":
			ok = n == 11
		}
		if ok {
			out = append(out, n)
		}
	}
	return out
}

func pickCount(r *vlib.Rand, op string) int {
	lc := legalCounts(op)
	switch r.Intn(6) {
	case 0:
		return lc[0]
	case 1:
		return lc[len(lc)-1]
	case 2:
		return vlib.Pick(r, lc)
	}
	// mostly short
	k := r.Intn(1 + len(lc)/4)
	return lc[k]
}

func drawTok(r *vlib.Rand, c *gcfg, op string, n int) []tok {
	vals := make([]int64, n)
	for i := range vals {
		vals[i] = deltaVal(r, c)
	}
	if op == "flex1" && r.Chance(1, 3) {
		// near the |dx| = |dy| decision
		vals = []int64{10 * sc, 10 * sc, 5 * sc, -5 * sc, 5 * sc, 5 * sc, -3 * sc, 3 * sc, 3 * sc, 7 * sc, deltaVal(r, c)}
		if r.Bool() {
			vals[0] += vlib.Pick(r, []int64{1, -1, sc, -sc})
		}
		if r.Bool() {
			for i := range vals {
				if vals[i] != fixMin {
					vals[i] = -vals[i]
				}
			}
		}
	}
	return append(operands(r, c, vals, 0), opTok(op))
}

type genInfo struct {
	nStems   int
	hasWidth bool
}

// program builds a well-formed charstring (token list).
func program(r *vlib.Rand, c *gcfg) ([]tok, genInfo) {
	var out []tok
	var info genInfo
	widthPending := r.Bool()
	info.hasWidth = widthPending
	emitWidth := func() int {
		if widthPending {
			widthPending = false
			w := vlib.Pick(r, []int64{0, sc, -sc, 100 * sc, -600 * sc, 32767 * sc, -32768 * sc, 250*sc + 32768, int64(r.Range(-1000, 1000)) * sc})
			out = append(out, value(r, c, w, 48, 2)...)
			return 1
		}
		return 0
	}

	// hint section
	nh, nv := 0, 0
	if r.Chance(2, 3) {
		nh = vlib.Pick(r, []int{0, 1, 1, 2, 3, 4, 8, 12, 23, 24, 25, 30, 47, 48})
		nv = vlib.Pick(r, []int{0, 0, 1, 2, 3, 5, 8, 9, 23, 24, 25, 48})
		if nh+nv > 96 {
			nv = 96 - nh
		}
	}
	useMask := nh+nv > 0 && r.Chance(2, 3)
	maskEmitted := false
	stemVals := func(k int) []int64 {
		v := make([]int64, 2*k)
		for i := range v {
			if i%2 == 0 {
				v[i] = int64(r.Range(-40, 200)) * sc
			} else {
				v[i] = vlib.Pick(r, []int64{20 * sc, -20 * sc, -21 * sc, int64(r.Range(1, 300)) * sc, int64(r.Range(1, 300*sc))})
			}
			if r.Chance(1, 25) {
				v[i] = smallVal(r, c)
			}
		}
		return v
	}
	mask := func(name string) {
		k := (info.nStems + 7) / 8
		t := opTok(name)
		t.b = append(append([]byte(nil), t.b...), r.Bytes(k)...)
		out = append(out, t)
	}
	emitStems := func(n int, vertical bool) {
		left := n
		for left > 0 {
			base := emitWidth()
			maxPairs := (48 - base) / 2
			k := left
			if k > maxPairs {
				k = maxPairs
			}
			if k > 1 && r.Chance(1, 3) {
				k = r.Range(1, k)
			}
			out = append(out, operands(r, c, stemVals(k), base)...)
			left -= k
			info.nStems += k
			name := "hstem"
			if vertical {
				name = "vstem"
			}
			if useMask {
				name += "hm"
			}
			if vertical && left == 0 && useMask && r.Chance(2, 3) {
				// implicit vstem: the operands are consumed by the mask operator
				if r.Bool() {
					mask("hintmask")
				} else {
					mask("cntrmask")
				}
				maskEmitted = true
				return
			}
			out = append(out, opTok(name))
		}
	}
	emitStems(nh, false)
	emitStems(nv, true)
	if useMask {
		for i := r.Intn(3); i > 0; i-- {
			mask("cntrmask")
			maskEmitted = true
		}
		if !maskEmitted || r.Bool() {
			mask("hintmask")
		}
	}

	// subpaths
	nsub := vlib.Pick(r, []int{0, 1, 1, 1, 2, 2, 3, 5})
	for s := 0; s < nsub; s++ {
		base := emitWidth()
		switch r.Intn(3) {
		case 0:
			out = append(out, operands(r, c, []int64{deltaVal(r, c), deltaVal(r, c)}, base)...)
			out = append(out, opTok("rmoveto"))
		case 1:
			out = append(out, operands(r, c, []int64{deltaVal(r, c)}, base)...)
			out = append(out, opTok("hmoveto"))
		default:
			out = append(out, operands(r, c, []int64{deltaVal(r, c)}, base)...)
			out = append(out, opTok("vmoveto"))
		}
		for k := r.Intn(6); k > 0; k-- {
			op := vlib.Pick(r, drawOps)
			out = append(out, drawTok(r, c, op, pickCount(r, op))...)
			if useMask && r.Chance(1, 6) {
				if r.Chance(1, 5) {
					mask("cntrmask")
				} else {
					mask("hintmask")
				}
			}
		}
	}
	emitWidth()
	out = append(out, opTok("endchar"))
	return out, info
}

// ---- subroutines ----

var tableSizes = []int{0, 1, 1239, 1240, 33899, 33900, 40000}

func pickTableSize(r *vlib.Rand, big bool) int {
	if !big && r.Chance(3, 5) {
		return vlib.Pick(r, []int{1, 2, 3, 7, 108, 215, 300, 1239, 1240})
	}
	return vlib.Pick(r, tableSizes)
}

func newTable(r *vlib.Rand, size int) *Table {
	d := vlib.Pick(r, [][]byte{{11}, {14}, {}, {11}, {139, 139, 21, 11}})
	return &Table{Size: size, Default: d, Special: map[int][]byte{}}
}

func pickIndex(r *vlib.Rand, t *Table) (int, bool) {
	if len(t.Special) >= t.Size {
		return 0, false
	}
	n := t.Size
	b := bias(n)
	for try := 0; try < 50; try++ {
		var i int
		switch r.Intn(6) {
		case 0:
			i = 0
		case 1:
			i = n - 1
		case 2:
			i = b // biased operand 0
		case 3:
			i = vlib.Pick(r, []int{b - 1, b + 107, b + 108, b - 107, b - 108, b + 1131, b + 1132, n / 2})
		default:
			i = r.Intn(n)
		}
		if i < 0 || i >= n {
			continue
		}
		if _, used := t.Special[i]; !used {
			return i, true
		}
	}
	return 0, false
}

type segment struct {
	toks  []tok
	depth int
	tab   *Table // nil for the charstring itself
	idx   int
}

// wrap moves nWraps token ranges into subroutines.  deep makes nesting likely.
func wrap(r *vlib.Rand, main []tok, subrs, gsubrs *Table, nWraps int, deep bool, maxDepth int) []tok {
	segs := []*segment{{toks: append([]tok(nil), main...)}}
	for w := 0; w < nWraps; w++ {
		var s *segment
		if deep || r.Chance(1, 2) {
			s = segs[len(segs)-1]
		} else {
			s = vlib.Pick(r, segs)
		}
		if s.depth >= maxDepth {
			s = segs[0]
		}
		n := len(s.toks)
		if s.tab != nil {
			n-- // keep the final return / endchar in place
		}
		if n < 1 {
			continue
		}
		i := r.Intn(n)
		j := i + 1 + r.Intn(n-i)
		if deep {
			i, j = 0, n
		}
		global := r.Bool()
		t := subrs
		if global {
			t = gsubrs
		}
		idx, ok := pickIndex(r, t)
		if !ok {
			t = subrs
			if !global {
				t = gsubrs
			}
			global = !global
			idx, ok = pickIndex(r, t)
			if !ok {
				continue
			}
		}
		body := append([]tok(nil), s.toks[i:j]...)
		last := body[len(body)-1]
		if last.op != "endchar" || r.Bool() {
			body = append(body, opTok("return"))
		}
		ns := &segment{toks: body, depth: s.depth + 1, tab: t, idx: idx}
		t.Special[idx] = nil // reserve
		callName := "callsubr"
		if global {
			callName = "callgsubr"
		}
		repl := []tok{numTok(r, int64(idx-bias(t.Size))*sc), opTok(callName)}
		nt := append([]tok(nil), s.toks[:i]...)
		nt = append(nt, repl...)
		nt = append(nt, s.toks[j:]...)
		s.toks = nt
		segs = append(segs, ns)
	}
	for _, s := range segs[1:] {
		s.tab.Special[s.idx] = flatten(s.toks)
	}
	return segs[0].toks
}

func cloneTable(t *Table) *Table {
	c := &Table{Size: t.Size, Default: t.Default, Special: map[int][]byte{}}
	for k, v := range t.Special {
		c.Special[k] = v
	}
	return c
}

func sortedKeys(m map[int][]byte) []int {
	ks := make([]int, 0, len(m))
	for k := range m {
		ks = append(ks, k)
	}
	sort.Ints(ks)
	return ks
}

func pickWidths(r *vlib.Rand) (int64, int64) {
	d := vlib.Pick(r, []int64{0, 500 * sc, 1000 * sc, 250*sc + 16384, -100 * sc, int64(r.Range(0, 2000)) * sc})
	n := vlib.Pick(r, []int64{0, 600 * sc, 666 * sc, 123*sc + 4660, -50 * sc, int64(r.Range(0, 2000)) * sc})
	return d, n
}

// ---- single-fault mutations ----

var reservedOps = [][]byte{{0}, {2}, {9}, {13}, {15}, {16}, {17}, {12, 1}, {12, 2}, {12, 6}, {12, 7}, {12, 8},
	{12, 13}, {12, 16}, {12, 17}, {12, 19}, {12, 25}, {12, 31}, {12, 33}, {12, 38}, {12, 255}}

var mutKinds = []string{"drop-operand", "add-operand", "delete-endchar", "truncate", "draw-before-move",
	"overflow", "arith-underflow", "reserved-op", "store-index", "stem-after-mask", "mask-without-stems",
	"bad-subr", "depth-11"}

func isPathOp(op string) bool {
	if op == "rmoveto" || op == "hmoveto" || op == "vmoveto" {
		return true
	}
	for _, d := range drawOps {
		if d == op {
			return true
		}
	}
	return false
}

// mutate applies one fault to a token list; ok=false when the fault does not
// apply to this program.
func mutate(r *vlib.Rand, kind string, ts []tok) ([]tok, bool) {
	cp := append([]tok(nil), ts...)
	del := func(i int) []tok { return append(append([]tok(nil), cp[:i]...), cp[i+1:]...) }
	ins := func(i int, x ...tok) []tok {
		out := append([]tok(nil), cp[:i]...)
		out = append(out, x...)
		return append(out, cp[i:]...)
	}
	var sites []int
	switch kind {
	case "drop-operand", "add-operand":
		// a plain number directly in front of a path operator or inside its operand run
		for i, t := range cp {
			if !t.num {
				continue
			}
			j := i
			for j < len(cp) && cp[j].num {
				j++
			}
			if j < len(cp) && isPathOp(cp[j].op) {
				// the run must consist of literals only (no arithmetic in between)
				sites = append(sites, i)
			}
		}
		if len(sites) == 0 {
			return nil, false
		}
		i := vlib.Pick(r, sites)
		if kind == "drop-operand" {
			return del(i), true
		}
		return ins(i, numTok(r, int64(r.Range(-9, 9))*sc)), true
	case "delete-endchar":
		for i, t := range cp {
			if t.op == "endchar" {
				return del(i), true
			}
		}
		return nil, false
	case "draw-before-move":
		for i, t := range cp {
			if t.op == "rmoveto" || t.op == "hmoveto" || t.op == "vmoveto" {
				// remove the operator and its literal coordinates
				k := 1
				if t.op == "rmoveto" {
					k = 2
				}
				ok := i >= k
				for j := i - k; ok && j < i; j++ {
					ok = cp[j].num
				}
				if !ok {
					return nil, false
				}
				// something must be drawn afterwards
				if i+1 >= len(cp) || cp[len(cp)-1].op != "endchar" || i+2 >= len(cp) {
					return nil, false
				}
				return append(append([]tok(nil), cp[:i-k]...), cp[i+1:]...), true
			}
		}
		return nil, false
	case "overflow":
		i := r.Intn(len(cp))
		var x []tok
		for k := 49 + r.Intn(3); k > 0; k-- {
			x = append(x, numTok(r, int64(r.Range(-5, 5))*sc))
		}
		if r.Bool() {
			// 48 operands and a dup
			x = x[:48]
			x = append(x, opTok("dup"))
		}
		return ins(i, x...), true
	case "arith-underflow":
		op := vlib.Pick(r, []string{"add", "sub", "mul", "div", "neg", "abs", "sqrt", "drop", "exch", "dup", "index",
			"roll", "put", "get", "and", "or", "not", "eq", "ifelse", "callsubr", "callgsubr"})
		// at the start of the charstring or directly after a stack-clearing operator
		sites = []int{0}
		for i, t := range cp {
			if isPathOp(t.op) || t.op == "hstem" || t.op == "vstem" || t.op == "hstemhm" || t.op == "vstemhm" {
				sites = append(sites, i+1)
			}
		}
		return ins(vlib.Pick(r, sites), opTok(op)), true
	case "reserved-op":
		return ins(r.Intn(len(cp)+1), tok{b: vlib.Pick(r, reservedOps), op: "reserved"}), true
	case "store-index":
		i := vlib.Pick(r, []int64{32, -1, 33, 1000, -32})
		if r.Bool() {
			return ins(0, numTok(r, 5*sc), numTok(r, i*sc), opTok("put")), true
		}
		return ins(0, numTok(r, i*sc), opTok("get")), true
	case "stem-after-mask":
		for i, t := range cp {
			if t.op == "hintmask" || t.op == "cntrmask" {
				name := vlib.Pick(r, []string{"hstem", "vstem", "hstemhm", "vstemhm"})
				return ins(i+1, numTok(r, 10*sc), numTok(r, 20*sc), opTok(name)), true
			}
		}
		return nil, false
	case "mask-without-stems":
		for _, t := range cp {
			if t.op == "hstem" || t.op == "vstem" || t.op == "hstemhm" || t.op == "vstemhm" || t.op == "hintmask" || t.op == "cntrmask" {
				return nil, false
			}
		}
		t := opTok(vlib.Pick(r, []string{"hintmask", "cntrmask"}))
		t.b = append(append([]byte(nil), t.b...), 0xff)
		// after the width has been taken by the first moveto, or at the start
		for i, x := range cp {
			if x.op == "rmoveto" || x.op == "hmoveto" || x.op == "vmoveto" {
				return ins(i+1, t), true
			}
		}
		return ins(len(cp)-1, t), true
	}
	return nil, false
}
