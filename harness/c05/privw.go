package c05

// Oracle-only stream "privw": the optional leading width against the
// defaultWidthX / nominalWidthX entries of the Private DICT AS STORED IN A FONT
// (cff/read.go, cff/dict.go: readPrivate), for every operand form the CFF
// specification allows for a "number": integer operands of each size and real
// operands (integral or fractional values).  The fonts are assembled here from
// the CFF specification (Adobe TN5176), not written by the library, whose
// writer only ever emits integer widths.
//
//	!privw <default> <nominal> <operand>
//
// default/nominal: none | i<int> | r<decimal>   operand: none | <int>

import (
	"bytes"
	"errors"
	"fmt"
	"strconv"
	"strings"

	"seehuhn.de/go/sfnt/cff"
	"seehuhn.de/go/sfnt/verifharness/vlib"
)

// dictInt encodes an integer DICT operand in the shortest form (TN5176 table 3).
func dictInt(v int) []byte {
	switch {
	case v >= -107 && v <= 107:
		return []byte{byte(v + 139)}
	case v >= 108 && v <= 1131:
		v -= 108
		return []byte{byte(v>>8) + 247, byte(v)}
	case v >= -1131 && v <= -108:
		v = -v - 108
		return []byte{byte(v>>8) + 251, byte(v)}
	case v >= -32768 && v <= 32767:
		return []byte{28, byte(v >> 8), byte(v)}
	}
	return []byte{29, byte(v >> 24), byte(v >> 16), byte(v >> 8), byte(v)}
}

// dictReal encodes a decimal string as a real DICT operand (TN5176 table 5).
func dictReal(s string) []byte {
	var nib []byte
	for i := 0; i < len(s); i++ {
		switch c := s[i]; {
		case c >= '0' && c <= '9':
			nib = append(nib, c-'0')
		case c == '.':
			nib = append(nib, 0xa)
		case c == '-':
			nib = append(nib, 0xe)
		case c == 'E' && i+1 < len(s) && s[i+1] == '-':
			nib = append(nib, 0xc)
			i++
		case c == 'E':
			nib = append(nib, 0xb)
		}
	}
	nib = append(nib, 0xf)
	if len(nib)%2 == 1 {
		nib = append(nib, 0xf)
	}
	out := []byte{30}
	for i := 0; i < len(nib); i += 2 {
		out = append(out, nib[i]<<4|nib[i+1])
	}
	return out
}

// privOperand: encoding and value of "none" | "i<int>" | "r<decimal>".
func privOperand(a string) (enc []byte, val float64, err error) {
	switch {
	case a == "none":
		return nil, 0, nil
	case strings.HasPrefix(a, "i"):
		v, e := strconv.Atoi(a[1:])
		if e != nil {
			return nil, 0, e
		}
		return dictInt(v), float64(v), nil
	case strings.HasPrefix(a, "r"):
		v, e := strconv.ParseFloat(strings.TrimSuffix(a[1:], "."), 64)
		if e != nil {
			return nil, 0, e
		}
		return dictReal(a[1:]), v, nil
	}
	return nil, 0, errors.New("bad operand " + a)
}

// privwFont: header, Name INDEX, Top DICT INDEX, empty String and Global Subr
// INDEXes, CharStrings INDEX with two glyphs (.notdef = endchar; glyph 1 =
// [w] 100 200 rmoveto 10 hlineto endchar), Private DICT with the two widths.
func privwFont(def, nom []byte, w *int) []byte {
	int5 := func(v int) []byte { return []byte{29, byte(v >> 24), byte(v >> 16), byte(v >> 8), byte(v)} }
	g0 := []byte{14}
	var g1 []byte
	if w != nil {
		g1 = append(g1, dictInt(*w)...) // the Type 2 integer forms 32..254, 28 coincide with the DICT forms
	}
	g1 = append(g1, dictInt(100)...)
	g1 = append(g1, dictInt(200)...)
	g1 = append(g1, 21)
	g1 = append(g1, dictInt(10)...)
	g1 = append(g1, 6, 14)
	var priv []byte
	if def != nil {
		priv = append(append(priv, def...), 20)
	}
	if nom != nil {
		priv = append(append(priv, nom...), 21)
	}
	b := []byte{1, 0, 4, 1}
	b = append(b, 0, 1, 1, 1, 2, 'A')
	const topLen = 6 + 11
	charStringsAt := len(b) + (2 + 1 + 2 + topLen) + 2 + 2
	csLen := 2 + 1 + 3 + len(g0) + len(g1)
	top := append(int5(charStringsAt), 17)
	top = append(append(append(top, int5(len(priv))...), int5(charStringsAt+csLen)...), 18)
	b = append(b, 0, 1, 1, 1, byte(1+len(top)))
	b = append(b, top...)
	b = append(b, 0, 0, 0, 0)
	b = append(b, 0, 2, 1, 1, byte(1+len(g0)), byte(1+len(g0)+len(g1)))
	b = append(b, g0...)
	b = append(b, g1...)
	b = append(b, priv...)
	return b
}

func privwCase(defA, nomA, wA string) (impl, fail, sig string, err error) {
	def, defV, err := privOperand(defA)
	if err != nil {
		return
	}
	nom, nomV, err := privOperand(nomA)
	if err != nil {
		return
	}
	var w *int
	if wA != "none" {
		v, e := strconv.Atoi(wA)
		if e != nil {
			return "", "", "", e
		}
		w = &v
	}
	data := privwFont(def, nom, w)
	var f *cff.Font
	var rerr error
	func() {
		defer func() {
			if e := recover(); e != nil {
				rerr = fmt.Errorf("panic: %v", e)
				impl = "panic"
			}
		}()
		f, rerr = cff.Read(bytes.NewReader(data))
	}()
	if impl == "panic" {
		return impl, "cff.Read panics on a font assembled from the specification: " + rerr.Error(), "c05-privw-panic", nil
	}
	if rerr != nil || f == nil || len(f.Glyphs) != 2 {
		return "err", fmt.Sprintf("cff.Read rejects a well-formed font (Private DICT widths %s / %s): %v", defA, nomA, rerr), "c05-privw-rejected", nil
	}
	want0 := defV // .notdef has no width operand
	want1 := defV
	if w != nil {
		want1 = nomV + float64(*w)
	}
	impl = fmt.Sprintf("(ok %v %v)", f.Glyphs[0].Width, f.Glyphs[1].Width)
	if f.Glyphs[0].Width != want0 || f.Glyphs[1].Width != want1 {
		return impl, fmt.Sprintf("advance widths %v, %v; the Type 2 specification with defaultWidthX=%s nominalWidthX=%s gives %v, %v", f.Glyphs[0].Width, f.Glyphs[1].Width, defA, nomA, want0, want1), "c05-private-dict-width", nil
	}
	return impl, "", "", nil
}

func genPrivw(run *vlib.Run) {
	forms := []string{"none", "i0", "i107", "i108", "i500", "i1131", "i1132", "i-200", "i32767", "i40000",
		"r500", "r500.", "r500.0", "r250.5", "r-120.25", "r0.5", "r1000", "r5E2", "r2505E-1"}
	for _, d := range forms {
		for _, n := range forms {
			// all pairs would be 361 fonts; every form on each side with three partners
			if !(d == "none" || n == "none" || d == "i500" || n == "i500" || d == n) {
				continue
			}
			for _, w := range []string{"none", "50", "-30"} {
				line := vlib.Line(vlib.Atom("!privw"), vlib.Atom(d), vlib.Atom(n), vlib.Atom(w))
				impl, fail, sig, err := privwCase(d, n, w)
				if err != nil {
					panic(err)
				}
				kind := "int"
				if strings.HasPrefix(d, "r") || strings.HasPrefix(n, "r") {
					kind = "real"
				}
				idx := run.Add(line, impl, true, "stream:privw", "privw:"+kind, "oracle-only")
				if fail != "" {
					report(run, idx, line, fail, sig)
				}
			}
		}
	}
}

// ---- CID-keyed fonts: one Private DICT per Font DICT --------------------------
//
//	!cidpriv <default0> <nominal0> <mode> <operand1> <operand2>
//
// Two Font DICTs.  FD 0 has the Private DICT (default0, nominal0); FD 1 has,
// by mode: "own" = its own dict (i300, i400) behind FD 0's; "empty-own" = an
// empty dict at its own offset; "empty-shared" = an empty dict (size 0) at the
// OFFSET OF FD 0's dict, which is where a zero-byte dict written in sequence
// lands; "prefix" = the first entry of FD 0's dict only (same offset, smaller
// size).  Glyph 1 belongs to FD 0, glyph 2 to FD 1; each is
// [operand] 100 200 rmoveto 10 hlineto endchar.

func cidPrivFont(def0, nom0 []byte, mode string, w1, w2 *int) []byte {
	int5 := func(v int) []byte { return []byte{29, byte(v >> 24), byte(v >> 16), byte(v >> 8), byte(v)} }
	glyphProg := func(w *int) []byte {
		var g []byte
		if w != nil {
			g = append(g, dictInt(*w)...)
		}
		g = append(g, dictInt(100)...)
		g = append(g, dictInt(200)...)
		g = append(g, 21)
		g = append(g, dictInt(10)...)
		return append(g, 6, 14)
	}
	g0, g1, g2 := []byte{14}, glyphProg(w1), glyphProg(w2)
	var p0 []byte
	firstLen := 0
	if def0 != nil {
		p0 = append(append(p0, def0...), 20)
		firstLen = len(p0)
	}
	if nom0 != nil {
		p0 = append(append(p0, nom0...), 21)
		if firstLen == 0 {
			firstLen = len(p0)
		}
	}
	p1 := append(append(append([]byte{}, dictInt(300)...), 20), append(dictInt(400), 21)...)

	b := []byte{1, 0, 4, 1}
	b = append(b, 0, 1, 1, 1, 2, 'A')
	const topLen = 7 + 6 + 7 + 7 + 6
	strs := []byte{0, 2, 1, 1, 6, 14}
	strs = append(strs, "AdobeIdentity"...)
	charsetAt := len(b) + (2 + 1 + 2 + topLen) + len(strs) + 2
	fdselectAt := charsetAt + 5
	charStringsAt := fdselectAt + 1 + 3
	csLen := 2 + 1 + 4 + len(g0) + len(g1) + len(g2)
	fdArrayAt := charStringsAt + csLen
	const fontDictLen = 11
	fdArrayLen := 2 + 1 + 3 + 2*fontDictLen
	priv0At := fdArrayAt + fdArrayLen
	priv1At, priv1Len := priv0At+len(p0), len(p1)
	tail := append(append([]byte{}, p0...), p1...)
	switch mode {
	case "own":
	case "empty-own":
		priv1Len = 0
		tail = p0
	case "empty-shared":
		priv1At, priv1Len = priv0At, 0
		tail = p0
	case "prefix":
		priv1At, priv1Len = priv0At, firstLen
		tail = p0
	}
	top := append(append(append(dictInt(391), dictInt(392)...), dictInt(0)...), 12, 30)
	top = append(append(top, int5(charsetAt)...), 15)
	top = append(append(top, int5(fdselectAt)...), 12, 37)
	top = append(append(top, int5(fdArrayAt)...), 12, 36)
	top = append(append(top, int5(charStringsAt)...), 17)
	b = append(b, 0, 1, 1, 1, byte(1+len(top)))
	b = append(b, top...)
	b = append(b, strs...)
	b = append(b, 0, 0)
	b = append(b, 2, 0, 1, 0, 1) // charset format 2: CIDs 1.. for glyphs 1, 2
	b = append(b, 0, 0, 0, 1)    // FDSelect format 0: glyphs 0,1 -> FD 0, glyph 2 -> FD 1
	b = append(b, 0, 3, 1, 1, byte(1+len(g0)), byte(1+len(g0)+len(g1)), byte(1+len(g0)+len(g1)+len(g2)))
	b = append(append(append(b, g0...), g1...), g2...)
	fd := func(size, at int) []byte { return append(append(int5(size), int5(at)...), 18) }
	b = append(b, 0, 2, 1, 1, 1+fontDictLen, 1+2*fontDictLen)
	b = append(b, fd(len(p0), priv0At)...)
	b = append(b, fd(priv1Len, priv1At)...)
	return append(b, tail...)
}

func cidprivCase(defA, nomA, mode, w1A, w2A string) (impl, fail, sig string, err error) {
	def, defV, err := privOperand(defA)
	if err != nil {
		return
	}
	nom, nomV, err := privOperand(nomA)
	if err != nil {
		return
	}
	opnd := func(a string) (*int, error) {
		if a == "none" {
			return nil, nil
		}
		v, e := strconv.Atoi(a)
		return &v, e
	}
	w1, err := opnd(w1A)
	if err != nil {
		return
	}
	w2, err := opnd(w2A)
	if err != nil {
		return
	}
	if (def == nil && nom == nil) && mode == "prefix" {
		mode = "empty-shared"
	}
	data := cidPrivFont(def, nom, mode, w1, w2)
	var f *cff.Font
	var rerr error
	func() {
		defer func() {
			if e := recover(); e != nil {
				rerr = fmt.Errorf("panic: %v", e)
				impl = "panic"
			}
		}()
		f, rerr = cff.Read(bytes.NewReader(data))
	}()
	if impl == "panic" {
		return impl, "cff.Read panics on a CID-keyed font assembled from the specification: " + rerr.Error(), "c05-privw-panic", nil
	}
	if rerr != nil || f == nil || len(f.Glyphs) != 3 {
		return "err", fmt.Sprintf("cff.Read rejects a well-formed CID-keyed font (mode %s): %v", mode, rerr), "c05-privw-rejected", nil
	}
	// FD 1's widths by mode
	def1, nom1 := 300.0, 400.0
	switch mode {
	case "empty-own", "empty-shared":
		def1, nom1 = 0, 0
	case "prefix":
		if def != nil {
			def1, nom1 = defV, 0
		} else {
			def1, nom1 = 0, nomV
		}
	}
	want := func(w *int, d, n float64) float64 {
		if w == nil {
			return d
		}
		return n + float64(*w)
	}
	want1, want2 := want(w1, defV, nomV), want(w2, def1, nom1)
	impl = fmt.Sprintf("(ok %v %v)", f.Glyphs[1].Width, f.Glyphs[2].Width)
	if f.Glyphs[1].Width != want1 || f.Glyphs[2].Width != want2 {
		return impl, fmt.Sprintf("advance widths of glyph 1 (FD 0) and glyph 2 (FD 1, Private DICT %s): %v, %v; each Font DICT's own defaultWidthX / nominalWidthX give %v, %v", mode, f.Glyphs[1].Width, f.Glyphs[2].Width, want1, want2), "c05-private-dict-width", nil
	}
	return impl, "", "", nil
}

func genCidPriv(run *vlib.Run) {
	for _, d := range []string{"none", "i500", "r250.5"} {
		for _, n := range []string{"none", "i600", "i40000"} {
			for _, mode := range []string{"own", "empty-own", "empty-shared", "prefix"} {
				for _, ws := range [][2]string{{"none", "none"}, {"50", "none"}, {"none", "10"}, {"50", "10"}} {
					line := vlib.Line(vlib.Atom("!cidpriv"), vlib.Atom(d), vlib.Atom(n), vlib.Atom(mode), vlib.Atom(ws[0]), vlib.Atom(ws[1]))
					impl, fail, sig, err := cidprivCase(d, n, mode, ws[0], ws[1])
					if err != nil {
						panic(err)
					}
					idx := run.Add(line, impl, true, "stream:cidpriv", "cidpriv:"+mode, "oracle-only")
					if fail != "" {
						report(run, idx, line, fail, sig)
					}
				}
			}
		}
	}
}

// ---- subroutine INDEXes with empty entries ---------------------------------------
//
//	!subridx local|global <position of the empty entry: 0..3, or -1 for none>
//
// A simple font whose local (Private DICT operator Subrs) or global subroutine
// INDEX has four entries; one of them may be EMPTY (two equal consecutive
// offsets - legal CFF, what subsetters leave behind when they blank unused
// subroutines without renumbering).  The glyph calls the two non-empty ones:
//   100 <a> callsubr <b> callsubr 40 vlineto endchar
// with subr a = "10 20 rmoveto return", subr b = "30 hlineto return",
// nominalWidthX 500: width 600, path (10,20) (40,20) (40,60).

func subrIdxFont(global bool, empty int) []byte {
	int5 := func(v int) []byte { return []byte{29, byte(v >> 24), byte(v >> 16), byte(v >> 8), byte(v)} }
	subA := append(append(dictInt(10), dictInt(20)...), 21, 11)
	subB := append(dictInt(30), 6, 11)
	filler := []byte{11}
	// four entries; a and b are placed at the first two positions that are not "empty"
	entries := make([][]byte, 4)
	var pos []int
	for i := 0; i < 4; i++ {
		if i != empty {
			pos = append(pos, i)
		}
	}
	ia, ib := pos[0], pos[1]
	for i := range entries {
		switch {
		case i == empty:
			entries[i] = nil
		case i == ia:
			entries[i] = subA
		case i == ib:
			entries[i] = subB
		default:
			entries[i] = filler
		}
	}
	index := []byte{0, 4, 1}
	off := 1
	index = append(index, byte(off))
	for _, e := range entries {
		off += len(e)
		index = append(index, byte(off))
	}
	for _, e := range entries {
		index = append(index, e...)
	}
	callOp := byte(10) // callsubr
	if global {
		callOp = 29 // callgsubr
	}
	g0 := []byte{14}
	g1 := append(dictInt(100), dictInt(ia-107)...)
	g1 = append(g1, callOp)
	g1 = append(append(g1, dictInt(ib-107)...), callOp)
	g1 = append(append(g1, dictInt(40)...), 7, 14)

	priv := append(dictInt(500), 21) // nominalWidthX 500
	if !global {
		priv = append(append(priv, dictInt(len(priv)+2)...), 19) // Subrs: right behind the dict (1-byte operand + operator)
	}
	gsubrs := []byte{0, 0}
	if global {
		gsubrs = index
	}
	b := []byte{1, 0, 4, 1}
	b = append(b, 0, 1, 1, 1, 2, 'A')
	const topLen = 6 + 11
	charStringsAt := len(b) + (2 + 1 + 2 + topLen) + 2 + len(gsubrs)
	csLen := 2 + 1 + 3 + len(g0) + len(g1)
	top := append(int5(charStringsAt), 17)
	top = append(append(append(top, int5(len(priv))...), int5(charStringsAt+csLen)...), 18)
	b = append(b, 0, 1, 1, 1, byte(1+len(top)))
	b = append(b, top...)
	b = append(b, 0, 0)
	b = append(b, gsubrs...)
	b = append(b, 0, 2, 1, 1, byte(1+len(g0)), byte(1+len(g0)+len(g1)))
	b = append(b, g0...)
	b = append(b, g1...)
	b = append(b, priv...)
	if !global {
		b = append(b, index...)
	}
	return b
}

func subrIdxCase(kind string, empty int) (impl, fail, sig string, err error) {
	if (kind != "local" && kind != "global") || empty < -1 || empty > 3 {
		return "", "", "", errors.New("bad subridx case")
	}
	data := subrIdxFont(kind == "global", empty)
	var f *cff.Font
	var rerr error
	func() {
		defer func() {
			if e := recover(); e != nil {
				rerr = fmt.Errorf("panic: %v", e)
				impl = "panic"
			}
		}()
		f, rerr = cff.Read(bytes.NewReader(data))
	}()
	if impl == "panic" {
		return impl, "cff.Read panics on a font assembled from the specification: " + rerr.Error(), "c05-privw-panic", nil
	}
	if rerr != nil || f == nil || len(f.Glyphs) != 2 {
		return "err", fmt.Sprintf("cff.Read rejects a well-formed font whose %s subroutine INDEX has an empty entry at %d: %v", kind, empty, rerr), "c05-subr-index-empty-entry", nil
	}
	g := f.Glyphs[1]
	impl = fmt.Sprintf("(ok %v %d)", g.Width, len(g.Cmds))
	okPath := len(g.Cmds) == 3 && len(g.Cmds[2].Args) == 2 && g.Cmds[0].Args[0] == 10 && g.Cmds[0].Args[1] == 20 && g.Cmds[2].Args[0] == 40 && g.Cmds[2].Args[1] == 60
	if g.Width != 600 || !okPath {
		return impl, fmt.Sprintf("glyph decoded as width %v, commands %v; the specification gives width 600 and the path (10,20) (40,20) (40,60)", g.Width, g.Cmds), "c05-subr-index-empty-entry", nil
	}
	return impl, "", "", nil
}

func genSubrIdx(run *vlib.Run) {
	for _, kind := range []string{"local", "global"} {
		for empty := -1; empty <= 3; empty++ {
			line := vlib.Line(vlib.Atom("!subridx"), vlib.Atom(kind), vlib.Int(empty))
			impl, fail, sig, err := subrIdxCase(kind, empty)
			if err != nil {
				panic(err)
			}
			idx := run.Add(line, impl, true, "stream:subridx", "oracle-only")
			if fail != "" {
				report(run, idx, line, fail, sig)
			}
		}
	}
}
