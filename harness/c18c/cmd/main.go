package main

import (
	"seehuhn.de/go/sfnt/verifharness/c18c"
	"seehuhn.de/go/sfnt/verifharness/vlib"
)

func main() { vlib.Main(c18c.Gen, c18c.RunCase) }
