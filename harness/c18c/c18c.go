// Package c18c ties part C18C (sfnt.Read at table level with the table
// decoders instantiated by the models of the developments that own them) to
// the library: the model is handed the WHOLE file and decodes every table
// itself; the library reads the same file.  Every table of several base fonts
// is cut to every length (in place: the length field of its directory entry),
// and a fault is injected at every offset, through a ReaderAt, a streaming
// reader and readers failing at k.  Compared: the outcome class (with the
// glyph count), the table that was being read when Read stopped, the bytes
// read; for the intact files also header.Read's requests and the order in
// which the tables are first touched.
package c18c

import (
	"encoding/binary"
	"errors"
	"fmt"
	"sort"
	"strings"

	"seehuhn.de/go/sfnt/verifharness/c18b"
	"seehuhn.de/go/sfnt/verifharness/vlib"
)

const (
	sigPanic    = "c18c-read-panics"
	sigBoth     = "c18c-font-value-and-error"
	sigSwallow  = "c18c-fault-at-consulted-offset-accepted"
	sigSpurious = "c18c-fault-outside-consulted-ranges-changes-result"
	sigSources  = "c18c-readerat-and-stream-disagree"
	sigBuild    = "c18c-case-not-built"
)

func tagAtom(tag string) vlib.Sx {
	return vlib.Atom("x" + fmt.Sprintf("%08x", binary.BigEndian.Uint32([]byte(tag))))
}

func tableOf(dir []c18b.Entry, off int) (string, bool) {
	for _, e := range dir {
		if e.Off <= off && off < e.Off+e.Len {
			return e.Tag, true
		}
	}
	return "", false
}

// lastTag: the table the last request went to.
func lastTag(dir []c18b.Entry, log [][2]int) vlib.Sx {
	if len(log) == 0 {
		return vlib.Atom("none")
	}
	if t, ok := tableOf(dir, log[len(log)-1][0]); ok {
		return tagAtom(t)
	}
	return vlib.Atom("none")
}

func coveredBytes(log [][2]int) int {
	n := 0
	for _, iv := range c18b.Merged(log) {
		n += iv[1] - iv[0]
	}
	return n
}

func classChar(r c18b.Result) string {
	if r.Both {
		return "X"
	}
	switch r.Class {
	case "ok":
		return "o"
	case "err":
		return "e"
	case "panic":
		return "p"
	}
	return "?"
}

// rle: run-length encoding of a list of lists, as the driver does it.
func rle(items []vlib.List) vlib.Sx {
	out := vlib.List{}
	for i := 0; i < len(items); {
		j := i
		for j < len(items) && vlib.Str(items[j]) == vlib.Str(items[i]) {
			j++
		}
		out = append(out, append(append(vlib.List{}, items[i]...), vlib.Int(j-i)))
		i = j
	}
	return out
}

// plainObs: the observation of the fault-free run.
func plainObs(file []byte, res c18b.Result) string {
	cls := vlib.Sx(vlib.Atom(res.Class))
	if res.Class == "ok" {
		cls = vlib.L(vlib.Atom("ok"), vlib.Int(res.NG))
	}
	hlog, hok := c18b.HeaderLog(file)
	dirl := vlib.List{vlib.Atom("dir")}
	for _, a := range hlog {
		dirl = append(dirl, vlib.L(vlib.Int(a[0]), vlib.Int(a[1])))
	}
	var dir []c18b.Entry
	if hok {
		dir = c18b.Directory(file)
	}
	order := vlib.List{vlib.Atom("order")}
	seen := map[string]bool{}
	for _, a := range res.Log {
		if t, ok := tableOf(dir, a[0]); ok && !seen[t] {
			seen[t] = true
			order = append(order, tagAtom(t))
		}
	}
	cov := vlib.List{vlib.Atom("cov")}
	for _, iv := range c18b.Merged(res.Log) {
		cov = append(cov, vlib.L(vlib.Int(iv[0]), vlib.Int(iv[1])))
	}
	return vlib.Str(vlib.L(cls, dirl, order, cov, vlib.L(vlib.Atom("last"), lastTag(dir, res.Log))))
}

// cutTable: the file with the length field of the table's directory entry set to j.
func cutTable(file []byte, tag string, j int) []byte {
	out := append([]byte(nil), file...)
	n := int(binary.BigEndian.Uint16(out[4:]))
	for i := 0; i < n && 12+16*i+16 <= len(out); i++ {
		rec := out[12+16*i:]
		if string(rec[:4]) == tag {
			binary.BigEndian.PutUint32(rec[12:], uint32(j))
		}
	}
	return out
}

// dirOK: the directory as the reader will use it (nil when header.Read rejects the file).
func dirOK(file []byte) []c18b.Entry {
	if _, ok := c18b.HeaderLog(file); ok {
		return c18b.Directory(file)
	}
	return nil
}

func basicOracle(what string, r c18b.Result) (string, string) {
	if r.Class == "panic" {
		return what + ": sfnt.Read panics: " + r.Msg, sigPanic
	}
	if r.Both {
		return what + ": sfnt.Read returns a font value together with an error, or neither", sigBoth
	}
	return "", ""
}

// accepted cuts, per table (evidence: where the library tolerates a shortened table)
var acceptedCuts = map[string][]int{}

// tcxCase: table tag cut to every j of js.
func tcxCase(file []byte, recipe vlib.Sx, src, tag string, js []int) (line, obs, fail, sig string) {
	cuts := vlib.List{}
	items := []vlib.List{}
	for _, j := range js {
		f2 := cutTable(file, tag, j)
		cuts = append(cuts, vlib.L(vlib.Int(j), c18b.Navigation(f2)))
		ra := c18b.ReadPlain(f2)
		st := c18b.ReadStream(f2, 512)
		for _, r := range []c18b.Result{ra, st} {
			if d, s := basicOracle(fmt.Sprintf("table %q cut to %d bytes", tag, j), r); d != "" && fail == "" {
				fail, sig = d, s
			}
		}
		if (ra.Class != st.Class || ra.NG != st.NG) && fail == "" {
			fail, sig = fmt.Sprintf("table %q cut to %d bytes: %s through a ReaderAt, %s through a streaming reader", tag, j, ra.Class, st.Class), sigSources
		}
		if ra.Class == "ok" {
			acceptedCuts[tag] = append(acceptedCuts[tag], j)
		}
		if src == "ra" {
			items = append(items, vlib.List{vlib.Atom(classChar(ra)), lastTag(dirOK(f2), ra.Log), vlib.Int(coveredBytes(ra.Log))})
		} else {
			items = append(items, vlib.List{vlib.Atom(classChar(st)), vlib.Atom("-"), vlib.Int(0)})
		}
	}
	line = vlib.Line(vlib.Atom("tcx"), vlib.Atom(src), vlib.Hex(file), vlib.Hex([]byte(tag)), cuts, recipe)
	return line, vlib.Str(rle(items)), fail, sig
}

func touched(log [][2]int, k int) bool {
	for _, a := range log {
		if a[0] <= k && k < a[0]+a[1] {
			return true
		}
	}
	return false
}

func maxEnd(log [][2]int) int {
	m := 0
	for _, a := range log {
		if a[1] > 0 && a[0]+a[1] > m {
			m = a[0] + a[1]
		}
	}
	return m
}

// flxCase: a fault of the given style at every k of ks.
func flxCase(file []byte, recipe vlib.Sx, plain c18b.Result, style string, ks []int, chunk int) (line, obs, fail, sig string) {
	items := []vlib.List{}
	dir := dirOK(file)
	end := 0
	for _, e := range c18b.Directory(file) {
		if e.Off+e.Len > end {
			end = e.Off + e.Len
		}
	}
	set := func(d, s string) {
		if fail == "" {
			fail, sig = d, s
		}
	}
	for _, k := range ks {
		r := c18b.ReadFault(file, style, k, chunk)
		if d, s := basicOracle(fmt.Sprintf("%s at %d", style, k), r); d != "" {
			set(d, s)
		}
		same := r.Class == plain.Class && (r.Class != "ok" || r.NG == plain.NG)
		switch style {
		case "at":
			if touched(plain.Log, k) {
				if r.Class == "ok" {
					set(fmt.Sprintf("read error at offset %d, which the fault-free run reads, but sfnt.Read succeeds", k), sigSwallow)
				}
			} else if !same {
				set(fmt.Sprintf("bad byte at offset %d, which the fault-free run never reads: %s instead of %s", k, r.Class, plain.Class), sigSpurious)
			}
		case "ge":
			if k < maxEnd(plain.Log) {
				if r.Class == "ok" {
					set(fmt.Sprintf("reads fail from offset %d on, the fault-free run reads up to %d, but sfnt.Read succeeds", k, maxEnd(plain.Log)), sigSwallow)
				}
			} else if !same {
				set(fmt.Sprintf("reads fail from offset %d on, beyond what is read: %s instead of %s", k, r.Class, plain.Class), sigSpurious)
			}
		case "trunc", "seof":
			if k < end && k < len(file) && r.Class == "ok" {
				set(fmt.Sprintf("file cut at %d, inside the table data (end %d), accepted (%s)", k, end, style), sigSwallow)
			}
		case "stream":
			if k <= len(file) && r.Class == "ok" {
				set(fmt.Sprintf("streaming reader fails at offset %d of %d, sfnt.Read succeeds", k, len(file)), sigSwallow)
			}
		}
		last := vlib.Sx(vlib.Atom("-"))
		switch style {
		case "at", "ge":
			last = lastTag(dir, r.Log)
		case "trunc":
			kk := k
			if kk > len(file) {
				kk = len(file)
			}
			last = lastTag(dirOK(file[:kk]), r.Log)
		}
		items = append(items, vlib.List{vlib.Atom(classChar(r)), last})
	}
	line = vlib.Line(vlib.Atom("flx"), vlib.Atom(style), vlib.Hex(file), c18b.Navigation(file), vlib.Ints(ks), vlib.Int(chunk), recipe)
	return line, vlib.Str(rle(items)), fail, sig
}

// ---------------------------------------------------------------- RunCase

func findRecipe(items []vlib.Sx) (vlib.Sx, error) {
	for _, it := range items {
		if l, err := vlib.AsList(it); err == nil && len(l) > 0 {
			if h, err := vlib.AsAtom(l[0]); err == nil && h == "recipe" {
				return it, nil
			}
		}
	}
	return nil, errors.New("C18C case without recipe")
}

// RunCase re-executes one case line (the file is rebuilt from the recipe).
func RunCase(line string) (impl, fail, sig string, err error) {
	line = strings.TrimPrefix(line, "!")
	items, err := vlib.Parse(line)
	if err != nil {
		return "", "", "", err
	}
	if len(items) < 3 {
		return "", "", "", errors.New("C18C case: too few items")
	}
	kind, err := vlib.AsAtom(items[0])
	if err != nil {
		return "", "", "", err
	}
	rec, err := findRecipe(items[1:])
	if err != nil {
		return "", "", "", err
	}
	file, err := c18b.BuildRecipe(rec)
	if err != nil {
		return "builderr", "the file of this case could not be built: " + err.Error(), sigBuild, nil
	}
	plain := c18b.ReadPlain(file)
	switch kind {
	case "rdx":
		d, s := basicOracle("intact file", plain)
		return plainObs(file, plain), d, s, nil
	case "tcx":
		if len(items) < 6 {
			return "", "", "", errors.New("tcx: too few items")
		}
		src, e1 := vlib.AsAtom(items[1])
		tag, e2 := vlib.AsBytes(items[3])
		cuts, e3 := vlib.AsList(items[4])
		if e1 != nil || e2 != nil || e3 != nil {
			return "", "", "", errors.New("tcx: bad arguments")
		}
		var js []int
		for _, c := range cuts {
			cl, err := vlib.AsList(c)
			if err != nil || len(cl) < 1 {
				return "", "", "", errors.New("tcx: bad cut")
			}
			j, err := vlib.AsInt(cl[0])
			if err != nil {
				return "", "", "", err
			}
			js = append(js, j)
		}
		_, obs, d, s := tcxCase(file, rec, src, string(tag), js)
		return obs, d, s, nil
	case "flx":
		if len(items) < 7 {
			return "", "", "", errors.New("flx: too few items")
		}
		style, e1 := vlib.AsAtom(items[1])
		ks, e2 := vlib.AsInts(items[4])
		chunk, e3 := vlib.AsInt(items[5])
		if e1 != nil || e2 != nil || e3 != nil {
			return "", "", "", errors.New("flx: bad arguments")
		}
		_, obs, d, s := flxCase(file, rec, plain, style, ks, chunk)
		return obs, d, s, nil
	}
	return "", "", "", errors.New("C18C case: unknown kind " + kind)
}

// ---------------------------------------------------------------- Gen

var instantiated = []string{"head", "hhea", "hmtx", "maxp", "OS/2", "cmap", "name", "post", "CFF ", "loca", "glyf", "GDEF", "GSUB", "GPOS", "kern"}

func chunkInts(ks []int, size int) [][]int {
	var out [][]int
	for len(ks) > 0 {
		n := size
		if n > len(ks) {
			n = len(ks)
		}
		out = append(out, ks[:n])
		ks = ks[n:]
	}
	return out
}

type baseCase struct {
	recipe vlib.Sx
	labels []string
	step   int // 1: every offset / length
}

func bases(tier string) []baseCase {
	kern := vlib.L(vlib.Atom("kern"))
	out := []baseCase{
		{c18b.RecipeSx("ttf5n"), []string{"font:truetype+layout+names+post2"}, 1},
		{c18b.RecipeSx("cff5x"), []string{"font:simple-cff+layout"}, 1},
		{c18b.RecipeSx("cid5"), []string{"font:cid-cff"}, 1},
		{c18b.RecipeSx("ttf5", kern), []string{"font:truetype+kern"}, 1},
		{c18b.RecipeSx("debug"), []string{"font:cff-3.5k-several-windows"}, 23},
	}
	if tier == "thorough" {
		out = append(out, baseCase{c18b.RecipeSx("cff5", kern), []string{"font:simple-cff+kern"}, 1},
			baseCase{c18b.RecipeSx("ttf1"), []string{"font:truetype-1-glyph"}, 1},
			baseCase{c18b.RecipeSx("cff1"), []string{"font:cff-1-glyph"}, 1})
		out[4].step = 3
	}
	return out
}

// Gen writes the run for the given tier.
func Gen(run *vlib.Run, seed uint64, tier string) {
	run.Rule = "non-trivial = the intact file is accepted; distinct by the full case line"
	acceptedCuts = map[string][]int{}
	cutCount, faultCount := 0, 0
	for _, bc := range bases(tier) {
		file, err := c18b.BuildRecipe(bc.recipe)
		if err != nil {
			line := vlib.Line(vlib.Atom("rdx"), vlib.Atom("x"), vlib.L(), bc.recipe)
			idx := run.Add("!"+line, "builderr", false, "kind:builderr")
			run.Fail(idx, line, "the file of this case could not be built: "+err.Error(), sigBuild)
			continue
		}
		plain := c18b.ReadPlain(file)
		ok := plain.Class == "ok"
		line := vlib.Line(vlib.Atom("rdx"), vlib.Hex(file), c18b.Navigation(file), bc.recipe)
		idx := run.Add(line, plainObs(file, plain), ok, append([]string{"kind:rdx", "class:" + plain.Class}, bc.labels...)...)
		if d, s := basicOracle("intact file", plain); d != "" {
			run.Fail(idx, line, d, s)
		}
		dir := c18b.Directory(file)
		sort.Slice(dir, func(i, j int) bool { return dir[i].Off < dir[j].Off })

		// (1) every table cut to every length
		for _, e := range dir {
			found := false
			for _, t := range instantiated {
				found = found || t == e.Tag
			}
			if !found {
				continue
			}
			var js []int
			for j := 0; j < e.Len; j += bc.step {
				js = append(js, j)
			}
			if bc.step > 1 && e.Len > 0 {
				js = append(js, e.Len-1)
			}
			for _, src := range []string{"ra", "st"} {
				for _, part := range chunkInts(js, 300) {
					line, obs, d, s := tcxCase(file, bc.recipe, src, e.Tag, part)
					idx := run.Add(line, obs, ok, append([]string{"kind:tcx", "source:" + src, "table:" + e.Tag}, bc.labels...)...)
					if d != "" {
						run.Fail(idx, line, d, s)
					}
					cutCount += len(part)
				}
			}
		}

		// (2) a fault at every offset of the file (every offset inside every table, the
		// directory and the padding between)
		var ks []int
		for k := 0; k <= len(file)+1; k += bc.step {
			ks = append(ks, k)
		}
		for _, st := range []struct {
			style string
			chunk int
		}{{"at", 0}, {"ge", 0}, {"trunc", 0}, {"stream", 64}, {"seof", 512}} {
			for _, part := range chunkInts(ks, 400) {
				line, obs, d, s := flxCase(file, bc.recipe, plain, st.style, part, st.chunk)
				idx := run.Add(line, obs, ok, append([]string{"kind:flx", "style:" + st.style}, bc.labels...)...)
				if d != "" {
					run.Fail(idx, line, d, s)
				}
				faultCount += len(part)
			}
		}
	}
	// where the library accepts a shortened table: as ranges
	acc := map[string]string{}
	for t, js := range acceptedCuts {
		sort.Ints(js)
		var parts []string
		seen := map[int]bool{}
		var u []int
		for _, j := range js {
			if !seen[j] {
				seen[j] = true
				u = append(u, j)
			}
		}
		for i := 0; i < len(u); {
			j := i
			for j+1 < len(u) && u[j+1] == u[j]+1 {
				j++
			}
			if i == j {
				parts = append(parts, fmt.Sprint(u[i]))
			} else {
				parts = append(parts, fmt.Sprintf("%d-%d", u[i], u[j]))
			}
			i = j + 1
		}
		acc[t] = strings.Join(parts, " ")
	}
	run.Extra["c18c_accepted_table_cuts"] = acc
	run.Extra["c18c_points"] = map[string]int{"table_cuts": cutCount, "fault_points": faultCount}
}
