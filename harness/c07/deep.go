package c07

import (
	"errors"
	"fmt"

	"seehuhn.de/go/sfnt/verifharness/vlib"
)

// Directed stream "deep": one root contextual rule (any of the six formats)
// with 3-6 nested actions of which at least two call contextual lookups (any
// format, built so that they match) at different sequence indices, followed
// by single-substitution / ligature / multiple-substitution actions at the
// low sequence indices of the root rule.  This is the shape in which a frame
// at depth >= 1 is pushed and popped while the root frame still has actions
// pending, i.e. where any confusion between the frames' buffers shows.
//
// Every case comes with a TWIN lookup list in which each call of a nested
// contextual lookup "match m glyphs at index i, then apply S at index k" is
// replaced by the action "apply S at index i+k" (S is a single or multiple
// substitution, whose effect does not depend on the window end).  The
// engine's result is a function of tables and input only, so both lists must
// give the same output (oracle signature c07-inline-equivalence; no model
// involved).  Line: !twin ll1 ll2 gdef lookups hist.

var deepPool = []int{1, 2, 3, 4, 5, 6, 7}

// every glyph id that can occur after the +100 substitutions
func deepAll() []int {
	var out []int
	for k := 0; k < 7; k++ {
		for _, g := range deepPool {
			out = append(out, g+100*k)
		}
	}
	out = append(out, 901, 902, 999)
	return out
}

// deepAny: deepAll plus the glyphs a +100 substitution makes of 901, 902 and
// 999 (they are outside the substitutions' coverage, so nothing grows
// further).  The "any glyph" contexts must accept them: otherwise the nested
// contextual call fails to match where its inlined twin acts unconditionally,
// and the two lists legitimately differ (false c07-inline-equivalence alarms
// in the thorough tier).
func deepAny() []int { return append(deepAll(), 1001, 1002, 1099) }

func anyCov() []KV {
	var out []KV
	for _, g := range deepAny() {
		out = append(out, KV{g, 0})
	}
	return out
}

func allCov() []KV {
	var out []KV
	for _, g := range deepAll() {
		out = append(out, KV{g, 0})
	}
	return out
}

// ctxExact builds a contextual subtable of the given format that matches
// exactly the glyph sequence gs (the first m glyphs as input, the rest as
// lookahead for the chained formats).
func ctxExact(kind string, gs []int, m int, acts []Act) *Sub {
	s := &Sub{Kind: kind}
	cls := func(g int) int { return g%100 + 1 }
	var clsTab []KV
	for _, g := range deepAll() {
		clsTab = append(clsTab, KV{g, cls(g)})
	}
	classes := func(xs []int) []int {
		out := make([]int, len(xs))
		for i, x := range xs {
			out[i] = cls(x)
		}
		return out
	}
	sets := func(xs []int) [][]int {
		out := make([][]int, len(xs))
		for i, x := range xs {
			out[i] = []int{x}
		}
		return out
	}
	switch kind {
	case "sc1":
		s.Cov = []KV{{gs[0], 0}}
		s.Rules = [][]Rule{{{In: gs[1:], Acts: acts}}}
	case "sc2":
		s.Cov = []KV{{gs[0], 0}}
		s.Cls = clsTab
		s.Rules = make([][]Rule, cls(gs[0])+1)
		for i := range s.Rules {
			s.Rules[i] = []Rule{}
		}
		s.Rules[cls(gs[0])] = []Rule{{In: classes(gs[1:]), Acts: acts}}
	case "sc3":
		s.SetsI = sets(gs)
		s.Acts = acts
	case "cc1":
		s.Cov = []KV{{gs[0], 0}}
		s.Rules = [][]Rule{{{Back: []int{}, In: gs[1:m], Look: gs[m:], Acts: acts}}}
	case "cc2":
		s.Cov = []KV{{gs[0], 0}}
		s.Cls, s.Cls2, s.Cls3 = clsTab, clsTab, clsTab
		s.Rules = make([][]Rule, cls(gs[0])+1)
		for i := range s.Rules {
			s.Rules[i] = []Rule{}
		}
		s.Rules[cls(gs[0])] = []Rule{{Back: []int{}, In: classes(gs[1:m]), Look: classes(gs[m:]), Acts: acts}}
	case "cc3":
		s.SetsB, s.SetsI, s.SetsL = [][]int{}, sets(gs[:m]), sets(gs[m:])
		s.Acts = acts
	}
	return s
}

// ctxAny builds a contextual subtable of the given format that matches any m
// glyphs of the alphabet.
func ctxAny(kind string, m int, acts []Act) *Sub {
	s := &Sub{Kind: kind}
	all := deepAny()
	anySets := func(n int) [][]int {
		out := make([][]int, n)
		for i := range out {
			out[i] = all
		}
		return out
	}
	zeros := make([]int, m-1)
	switch kind {
	case "sc1", "cc1":
		// glyph-based formats need one rule per possible second glyph
		s.Cov = anyCov()
		var rules []Rule
		if m == 1 {
			rules = []Rule{{In: []int{}, Back: []int{}, Look: []int{}, Acts: acts}}
		} else {
			for _, g := range all {
				rules = append(rules, Rule{In: []int{g}, Back: []int{}, Look: []int{}, Acts: acts})
			}
		}
		s.Rules = [][]Rule{rules}
	case "sc2":
		s.Cov = anyCov()
		s.Cls = []KV{}
		s.Rules = [][]Rule{{{In: zeros, Acts: acts}}}
	case "cc2":
		s.Cov = anyCov()
		s.Cls, s.Cls2, s.Cls3 = []KV{}, []KV{}, []KV{}
		s.Rules = [][]Rule{{{Back: []int{}, In: zeros, Look: []int{}, Acts: acts}}}
	case "sc3":
		s.SetsI = anySets(m)
		s.Acts = acts
	case "cc3":
		s.SetsB, s.SetsI, s.SetsL = [][]int{}, anySets(m), [][]int{}
		s.Acts = acts
	}
	return s
}

var ctxKinds = []string{"sc1", "sc2", "sc3", "cc1", "cc2", "cc3"}

// deepCase builds one case and its twin.
func deepCase(r *vlib.Rand, panicVariant bool) (c, twin *Case) {
	n := r.Range(3, 6)
	perm := append([]int(nil), deepPool...)
	for i := len(perm) - 1; i > 0; i-- {
		j := r.Intn(i + 1)
		perm[i], perm[j] = perm[j], perm[i]
	}
	gs := perm[:n]
	rootKind := vlib.Pick(r, ctxKinds)
	m := n // number of input glyphs of the root rule
	if rootKind[0] == 'c' && r.Bool() {
		m = r.Range(3, n)
	}

	// fixed lookups: 1 = single +100, 2 = multiple, 3 = ligature of any two glyphs
	single := &Lookup{Subs: []*Sub{{Kind: "g11", Set: deepAll(), Delta: 100}}}
	multi := &Lookup{Subs: []*Sub{{Kind: "g21", Cov: allCov(), Lists: [][]int{{901, 902}}}}}
	var ligs []Lig
	for _, g := range deepAll() {
		ligs = append(ligs, Lig{In: []int{g}, Out: 999})
	}
	lig := &Lookup{Subs: []*Sub{{Kind: "g41", Cov: allCov(), Ligs: [][]Lig{ligs}}}}
	ll := []*Lookup{nil, single, multi, lig}
	const lkSingle, lkMulti, lkLig = 1, 2, 3

	var rootActs, twinActs []Act
	// nested contextual calls at different sequence indices, at least one != 0
	nCalls := r.Range(2, 3)
	order := make([]int, m)
	for i := range order {
		order[i] = i
	}
	for i := m - 1; i > 0; i-- {
		j := r.Intn(i + 1)
		order[i], order[j] = order[j], order[i]
	}
	for i := 0; i < nCalls; i++ {
		idx := order[i] // distinct sequence indices, hence at least one != 0
		mi := 1
		if idx+1 < m && r.Bool() {
			mi = 2
		}
		var inner []Act
		switch r.Intn(4) {
		case 0: // no action
		case 1:
			inner = []Act{{r.Intn(mi), lkMulti}}
		default:
			inner = []Act{{r.Intn(mi), lkSingle}}
		}
		ll = append(ll, &Lookup{Subs: []*Sub{ctxAny(vlib.Pick(r, ctxKinds), mi, inner)}})
		rootActs = append(rootActs, Act{idx, len(ll) - 1})
		for _, a := range inner {
			twinActs = append(twinActs, Act{idx + a.Seq, a.Lk})
		}
		// sometimes a simple action between the contextual calls
		if r.Chance(1, 4) {
			a := Act{r.Intn(m), lkSingle}
			rootActs = append(rootActs, a)
			twinActs = append(twinActs, a)
		}
	}
	// follow-up actions at low sequence indices
	var follow []Act
	if panicVariant {
		follow = []Act{{r.Intn(2), lkLig}, {0, lkSingle}}
		if r.Bool() {
			follow = append(follow, Act{1, lkSingle})
		}
	} else {
		for i := r.Range(1, 3); i > 0; i-- {
			follow = append(follow, Act{r.Intn(m), vlib.Pick(r, []int{lkSingle, lkSingle, lkMulti, lkLig})})
		}
	}
	rootActs = append(rootActs, follow...)
	twinActs = append(twinActs, follow...)

	ll[0] = &Lookup{Subs: []*Sub{ctxExact(rootKind, gs, m, rootActs)}}
	ll2 := append([]*Lookup(nil), ll...)
	ll2[0] = &Lookup{Subs: []*Sub{ctxExact(rootKind, gs, m, twinActs)}}

	// sequences: the match, optionally surrounded and repeated
	mk := func() []G {
		var s []G
		add := func(g int) { s = append(s, G{Gid: g, Text: []rune{rune('a' + len(s)%26)}}) }
		for i := r.Intn(3); i > 0; i-- {
			add(vlib.Pick(r, []int{8, 9}))
		}
		for rep := r.Range(1, 2); rep > 0; rep-- {
			for _, g := range gs {
				add(g)
			}
			if r.Bool() {
				add(9)
			}
		}
		return s
	}
	var hist [][]G
	for i := r.Range(1, 3); i > 0; i-- {
		hist = append(hist, mk())
	}
	c = &Case{LL: ll, Lookups: []int{0}, Hist: hist}
	twin = &Case{LL: ll2, Lookups: []int{0}, Hist: hist}
	return c, twin
}

func twinLine(c, twin *Case) string {
	a, _ := vlib.Parse(c.Line())
	b, _ := vlib.Parse(twin.Line())
	return vlib.Line(vlib.Atom("!twin"), a[0], b[0], a[1], a[2], a[3])
}

// twinOracle: both lookup lists must give the same observations.
func twinOracle(c, twin *Case) (impl, fail, sig string) {
	v1 := runStruct(c)
	v2 := runStruct(twin)
	impl = v1.Impl
	if v1.Fail != "" {
		return impl, v1.Fail, v1.Sig
	}
	if v2.Fail != "" {
		return impl, "twin: " + v2.Fail, v2.Sig
	}
	if v1.Impl != v2.Impl {
		return impl, fmt.Sprintf("nested contextual calls give %s, the same substitutions called directly give %s", v1.Impl, v2.Impl), "c07-inline-equivalence"
	}
	return impl, "", ""
}

func runTwinLine(items []vlib.Sx) (impl, fail, sig string, err error) {
	if len(items) != 6 {
		return "", "", "", errors.New("!twin case: want 6 items")
	}
	c, err := ParseCase([]vlib.Sx{items[1], items[3], items[4], items[5]})
	if err != nil {
		return "", "", "", err
	}
	twin, err := ParseCase([]vlib.Sx{items[2], items[3], items[4], items[5]})
	if err != nil {
		return "", "", "", err
	}
	impl, fail, sig = twinOracle(c, twin)
	return impl, fail, sig, nil
}

func genDeep(run *vlib.Run, r *vlib.Rand, tier string) {
	n := vlib.Count(tier, 400, 8000)
	for i := 0; i < n; i++ {
		c, twin := deepCase(r, i%3 == 0)
		// both lists are ordinary cases (model comparison, standard oracle) ...
		emit(run, c, "stream:deep-nested")
		emit(run, twin, "stream:deep-inlined")
		// ... and together they are one metamorphic case
		line := twinLine(c, twin)
		impl, fail, sig := twinOracle(c, twin)
		idx := run.Add(line, impl, true, "stream:deep-twin", "oracle-only")
		if fail != "" {
			run.Fail(idx, line, fail, sig)
		}
	}
}

// Directed stream "overrun": a root contextual rule (any format) that matches
// k glyphs and calls, at sequence index 0, a lookup that could only match by
// using glyphs BEHIND the root rule's matched input: a contextual lookup (any
// format) whose input is the root's input plus 1-2 of the following glyphs and
// whose nested action is a ligature of all of them, or that ligature called
// directly.  A nested lookup acts on the matched input sequence only, so the
// call can never match and the TWIN list - the same root rule without the
// action - must give the same output (!twin, c07-inline-equivalence).  The
// following glyphs are present in the text (for the chained root formats they
// are the root's lookahead), so an engine that lets the nested match run past
// the window end does match, merges glyphs that are not in the root's window
// and corrupts the frame bookkeeping.
func overrunCases() (out [][2]*Case) {
	child := append(append([]string(nil), ctxKinds...), "g41")
	for _, pk := range ctxKinds {
		for _, ck := range child {
			for k := 1; k <= 3; k++ {
				for j := 1; j <= 2; j++ {
					gs := deepPool[:k+j]
					lig := &Lookup{Subs: []*Sub{{Kind: "g41", Cov: []KV{{gs[0], 0}}, Ligs: [][]Lig{{{In: gs[1:], Out: 999}}}}}}
					ll := []*Lookup{nil, lig}
					call := 1
					if ck != "g41" {
						m := k + j
						if ck[0] == 'c' && j == 2 {
							m = k + 1 // the last glyph as the child's lookahead
						}
						ligIn := &Lookup{Subs: []*Sub{{Kind: "g41", Cov: []KV{{gs[0], 0}}, Ligs: [][]Lig{{{In: gs[1:m], Out: 999}}}}}}
						ll = append(ll, ligIn, &Lookup{Subs: []*Sub{ctxExact(ck, gs, m, []Act{{0, 2}})}})
						call = 3
					}
					rootGs, rootM := gs[:k], k
					if pk[0] == 'c' {
						rootGs = gs // the following glyphs as the root's lookahead
					}
					ll[0] = &Lookup{Subs: []*Sub{ctxExact(pk, rootGs, rootM, []Act{{0, call}})}}
					ll2 := append([]*Lookup(nil), ll...)
					ll2[0] = &Lookup{Subs: []*Sub{ctxExact(pk, rootGs, rootM, []Act{})}}
					mk := func(pre, reps int) []G {
						var s []G
						add := func(g int) { s = append(s, G{Gid: g, Text: []rune{rune('a' + len(s)%26)}}) }
						for i := 0; i < pre; i++ {
							add(8)
						}
						for r := 0; r < reps; r++ {
							for _, g := range gs {
								add(g)
							}
						}
						return s
					}
					hist := [][]G{mk(0, 1), mk(1, 2), mk(0, 2)}
					out = append(out, [2]*Case{
						{LL: ll, Lookups: []int{0}, Hist: hist},
						{LL: ll2, Lookups: []int{0}, Hist: hist}})
				}
			}
		}
	}
	return out
}

func genOverrun(run *vlib.Run, tier string) {
	for _, p := range overrunCases() {
		c, twin := p[0], p[1]
		emit(run, c, "stream:overrun-nested")
		line := twinLine(c, twin)
		impl, fail, sig := twinOracle(c, twin)
		idx := run.Add(line, impl, true, "stream:overrun-twin", "oracle-only")
		if fail != "" {
			run.Fail(idx, line, fail, sig)
		}
	}
}
