package main

import (
	"seehuhn.de/go/sfnt/verifharness/c07"
	"seehuhn.de/go/sfnt/verifharness/vlib"
)

func main() { vlib.Main(c07.Gen, c07.RunCase) }
