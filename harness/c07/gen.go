package c07

import (
	"fmt"
	"sort"

	"golang.org/x/text/language"
	"seehuhn.de/go/sfnt/opentype/gtab"
	"seehuhn.de/go/sfnt/verifharness/vlib"
)

// The glyph alphabet: a few bases, marks (GDEF class 3), ligature-class glyphs
// (class 2), unclassified glyphs, and the ends of the glyph-id range.
var (
	bases  = []int{1, 2, 3, 4, 5}
	marks  = []int{10, 11, 12}
	ligs   = []int{20, 21}
	others = []int{30, 0, 65535}
)

func alphabet() []int {
	var a []int
	a = append(a, bases...)
	a = append(a, marks...)
	a = append(a, ligs...)
	a = append(a, others...)
	return a
}

var flagChoices = []int{0, 0, 0, 2, 4, 8, 8, 0x10, 0x10, 0x100, 0x200, 0x0E, 0x18, 0x110, 0x0300, 0x1, 0x12, 0xFF08}

func genGdef(r *vlib.Rand) *Gdef {
	switch r.Intn(8) {
	case 0:
		return nil
	case 1:
		return &Gdef{} // GlyphClass nil
	}
	g := &Gdef{HasClass: true}
	for _, b := range bases {
		if r.Chance(4, 5) {
			g.Class = append(g.Class, KV{b, 1})
		}
	}
	for _, m := range marks {
		g.Class = append(g.Class, KV{m, 3})
	}
	for _, l := range ligs {
		g.Class = append(g.Class, KV{l, 2})
	}
	if r.Chance(1, 6) {
		g.Class = append(g.Class, KV{30, vlib.Pick(r, []int{4, 5, 0, 65535})})
	}
	if r.Chance(2, 3) {
		for _, m := range marks {
			g.Attach = append(g.Attach, KV{m, r.Range(0, 2)})
		}
	}
	switch r.Intn(4) {
	case 0: // no sets
	case 1:
		g.Sets = [][]int{{10, 11}}
	default:
		g.Sets = [][]int{{10}, {11, 12}, {}}
	}
	return g
}

type tgen struct {
	r       *vlib.Rand
	nLk     int  // number of lookups in the list (targets of nested actions)
	wild    bool // out-of-range indices the reader can deliver
	bad     bool // shapes the reader cannot deliver (coverage index beyond the table)
	sortCov bool // coverage indices in glyph order (needed by the encoder)
	alpha   []int
}

func (t *tgen) gid() int { return vlib.Pick(t.r, t.alpha) }

// gidsDistinct returns up to n distinct glyphs.
func (t *tgen) gidsDistinct(n int) []int {
	seen := map[int]bool{}
	var out []int
	for i := 0; i < n*3 && len(out) < n; i++ {
		g := t.gid()
		if !seen[g] {
			seen[g] = true
			out = append(out, g)
		}
	}
	return out
}

func (t *tgen) cov(n int) []KV {
	gs := t.gidsDistinct(n)
	if t.sortCov {
		sort.Ints(gs)
	}
	out := make([]KV, len(gs))
	for i, g := range gs {
		out[i] = KV{g, i}
	}
	if t.bad && len(out) > 0 && t.r.Chance(1, 2) {
		out[t.r.Intn(len(out))].V = len(out) + t.r.Intn(3)
	}
	return out
}

func (t *tgen) set() []int { return t.gidsDistinct(t.r.Range(1, 5)) }

func (t *tgen) sets(lo, hi int) [][]int {
	n := t.r.Range(lo, hi)
	out := make([][]int, n)
	for i := range out {
		out[i] = t.set()
	}
	return out
}

func (t *tgen) gidList(lo, hi int) []int {
	n := t.r.Range(lo, hi)
	out := make([]int, n)
	for i := range out {
		out[i] = t.gid()
	}
	return out
}

func (t *tgen) classes() []KV {
	var out []KV
	for _, g := range t.gidsDistinct(t.r.Range(0, 6)) {
		c := t.r.Range(0, 3)
		if t.wild && t.r.Chance(1, 5) {
			c = vlib.Pick(t.r, []int{4, 9, 65535})
		}
		out = append(out, KV{g, c})
	}
	return out
}

func (t *tgen) classList(lo, hi int) []int {
	n := t.r.Range(lo, hi)
	out := make([]int, n)
	for i := range out {
		out[i] = t.r.Range(0, 3)
	}
	return out
}

func (t *tgen) acts(inputLen int) []Act {
	n := t.r.Range(0, 3)
	if t.r.Chance(1, 12) {
		n = t.r.Range(60, 140) // more nested actions than the budget
	}
	out := make([]Act, n)
	for i := range out {
		a := Act{t.r.Intn(inputLen + 1), t.r.Intn(t.nLk)}
		if t.wild && t.r.Chance(1, 6) {
			a.Seq = vlib.Pick(t.r, []int{inputLen + 1, inputLen + 2, 255, 65535})
		}
		if t.wild && t.r.Chance(1, 6) {
			a.Lk = vlib.Pick(t.r, []int{t.nLk, t.nLk + 1, 65535})
		}
		out[i] = a
	}
	return out
}

func (t *tgen) vr() *VR {
	switch t.r.Intn(8) {
	case 0:
		return nil
	case 1:
		return &VR{}
	case 2:
		return &VR{vlib.Pick(t.r, []int{32767, -32768, 1, -1}), vlib.Pick(t.r, []int{32767, -32768, 0}), vlib.Pick(t.r, []int{32767, -32768, 100}), 0, 0, 0, 0, 0}
	case 3:
		if t.wild {
			v := &VR{1, 2, 3, 0, 0, 0, 0, 0}
			v[3+t.r.Intn(5)] = t.r.Range(1, 9) // unimplemented data: YAdvance or a device offset
			return v
		}
	}
	return &VR{t.r.Range(-50, 50), t.r.Range(-50, 50), t.r.Range(-100, 100), 0, 0, 0, 0, 0}
}

func (t *tgen) anchor() [2]int {
	switch t.r.Intn(6) {
	case 0:
		return [2]int{0, 0} // "empty" anchor
	case 1:
		return [2]int{vlib.Pick(t.r, []int{32767, -32768}), vlib.Pick(t.r, []int{32767, -32768, 0})}
	}
	return [2]int{t.r.Range(-300, 300), t.r.Range(-300, 300)}
}

var allKinds = []string{"g11", "g12", "g21", "g31", "g41", "g81", "sc1", "sc2", "sc3", "cc1", "cc2", "cc3",
	"p11", "p12", "p21", "p22", "p31", "p41", "p51", "p61"}
var gsubKinds = []string{"g11", "g12", "g21", "g31", "g41", "g81", "sc1", "sc2", "sc3", "cc1", "cc2", "cc3"}
var gposKinds = []string{"p11", "p12", "p21", "p22", "p31", "p41", "p61", "sc1", "sc2", "sc3", "cc1", "cc2", "cc3"}
var simpleKinds = []string{"g11", "g12", "g21", "g31", "g41", "g81", "p11", "p12", "p21", "p22", "p31", "p41", "p51", "p61"}

func (t *tgen) sub(kind string) *Sub {
	r := t.r
	s := &Sub{Kind: kind}
	switch kind {
	case "g11":
		s.Set = t.set()
		s.Delta = vlib.Pick(r, []int{1, 2, 9, 65535, 65530, 0, 10})
	case "g12":
		s.Cov = t.cov(r.Range(1, 4))
		s.Gids = t.gidList(len(s.Cov), len(s.Cov))
	case "g21", "g31":
		s.Cov = t.cov(r.Range(1, 4))
		for range s.Cov {
			lo := 1
			if t.wild || kind == "g31" {
				lo = 0 // the reader delivers empty replacement / alternate lists
			}
			hi := 3
			if r.Chance(1, 10) {
				hi = 6
			}
			s.Lists = append(s.Lists, t.gidList(lo, hi))
		}
	case "g41":
		s.Cov = t.cov(r.Range(1, 3))
		for range s.Cov {
			var set []Lig
			for i := r.Range(0, 3); i > 0; i-- {
				set = append(set, Lig{In: t.gidList(0, 3), Out: t.gid()})
			}
			s.Ligs = append(s.Ligs, set)
		}
	case "g81":
		s.Cov = t.cov(r.Range(1, 3))
		s.Gids = t.gidList(len(s.Cov), len(s.Cov))
		for i := r.Range(0, 2); i > 0; i-- {
			s.CovsB = append(s.CovsB, t.cov(r.Range(1, 4)))
		}
		for i := r.Range(0, 2); i > 0; i-- {
			s.CovsL = append(s.CovsL, t.cov(r.Range(1, 4)))
		}
	case "sc1", "cc1":
		s.Cov = t.cov(r.Range(1, 3))
		for range s.Cov {
			var set []Rule
			for i := r.Range(0, 3); i > 0; i-- {
				ru := Rule{In: t.gidList(0, 3)}
				if kind == "cc1" {
					ru.Back, ru.Look = t.gidList(0, 2), t.gidList(0, 2)
				}
				ru.Acts = t.acts(len(ru.In) + 1)
				set = append(set, ru)
			}
			s.Rules = append(s.Rules, set)
		}
	case "sc2", "cc2":
		s.Cov = t.cov(r.Range(1, 4))
		if kind == "sc2" {
			s.Cls = t.classes()
		} else {
			s.Cls, s.Cls2, s.Cls3 = t.classes(), t.classes(), t.classes()
		}
		for i := r.Range(1, 4); i > 0; i-- {
			var set []Rule
			for j := r.Range(0, 2); j > 0; j-- {
				ru := Rule{In: t.classList(0, 3)}
				if kind == "cc2" {
					ru.Back, ru.Look = t.classList(0, 2), t.classList(0, 2)
				}
				ru.Acts = t.acts(len(ru.In) + 1)
				set = append(set, ru)
			}
			s.Rules = append(s.Rules, set)
		}
	case "sc3":
		s.SetsI = t.sets(1, 3)
		if t.bad && r.Chance(1, 3) {
			s.SetsI = nil
		}
		s.Acts = t.acts(len(s.SetsI))
	case "cc3":
		s.SetsB, s.SetsI, s.SetsL = t.sets(0, 2), t.sets(1, 3), t.sets(0, 2)
		if t.bad && r.Chance(1, 3) {
			s.SetsI = nil
		}
		s.Acts = t.acts(len(s.SetsI))
	case "p11":
		s.Set, s.V = t.set(), t.vr()
	case "p12":
		s.Cov = t.cov(r.Range(1, 4))
		for range s.Cov {
			s.Vs = append(s.Vs, t.vr())
		}
	case "p21":
		seen := map[[2]int]bool{}
		for i := r.Range(1, 6); i > 0; i-- {
			p := PairEnt{L: t.gid(), R: t.gid(), V1: t.vr(), V2: t.vr()}
			if !seen[[2]int{p.L, p.R}] {
				seen[[2]int{p.L, p.R}] = true
				s.Pairs = append(s.Pairs, p)
			}
		}
	case "p22":
		s.Set, s.Cls, s.Cls2 = t.set(), t.classes(), t.classes()
		n1, n2 := r.Range(1, 3), r.Range(1, 3)
		for i := 0; i < n1; i++ {
			row := make([]PairAdj, n2)
			for j := range row {
				row[j] = PairAdj{t.vr(), t.vr()}
			}
			s.Adj = append(s.Adj, row)
		}
	case "p31":
		s.Cov = t.cov(r.Range(1, 4))
		for range s.Cov {
			a, b := t.anchor(), t.anchor()
			s.EE = append(s.EE, [4]int{a[0], a[1], b[0], b[1]})
		}
	case "p41", "p61":
		s.Cov, s.Cov2 = t.cov(r.Range(1, 3)), t.cov(r.Range(1, 3))
		nc := r.Range(1, 3)
		for range s.Cov {
			a := t.anchor()
			c := r.Intn(nc)
			if t.wild && r.Chance(1, 4) {
				c = vlib.Pick(r, []int{nc, nc + 3, 65535}) // the reader does not check the mark class
			}
			s.Marks = append(s.Marks, MarkRec{c, a[0], a[1]})
		}
		for range s.Cov2 {
			row := make([][2]int, nc)
			for j := range row {
				row[j] = t.anchor()
			}
			s.Bases = append(s.Bases, row)
		}
	case "p51":
	}
	return s
}

func (t *tgen) lookup(kinds []string, maxSubs int) *Lookup {
	l := &Lookup{Flags: vlib.Pick(t.r, flagChoices)}
	if l.Flags&0x10 != 0 {
		l.MFS = vlib.Pick(t.r, []int{0, 1, 2})
		if t.wild && t.r.Chance(1, 3) {
			l.MFS = vlib.Pick(t.r, []int{3, 7, 65535}) // the reader does not check the set index
		}
	}
	for i := t.r.Range(1, maxSubs); i > 0; i-- {
		l.Subs = append(l.Subs, t.sub(vlib.Pick(t.r, kinds)))
	}
	return l
}

func (t *tgen) text(i int) []rune {
	switch t.r.Intn(10) {
	case 0:
		return nil
	case 1:
		return []rune{rune('a' + i%26), rune(0x300 + i%16)}
	case 2:
		return []rune{rune(0x1F600 + i%64)}
	}
	return []rune{rune('a' + i%26)}
}

func (t *tgen) glyphSeq(n int) []G {
	out := make([]G, n)
	pos := t.r.Chance(1, 3)
	for i := range out {
		out[i] = G{Gid: t.gid(), Text: t.text(i)}
		if pos {
			out[i].A = t.r.Range(0, 700)
			if t.r.Chance(1, 10) {
				out[i].X, out[i].Y, out[i].A = vlib.Pick(t.r, []int{32767, -32768, 5}), vlib.Pick(t.r, []int{32767, -32768, -5}), vlib.Pick(t.r, []int{32767, -32768, 600})
			}
		}
	}
	return out
}

func (t *tgen) seqLen(maxLen int) int {
	switch t.r.Intn(10) {
	case 0:
		return 0
	case 1:
		return 1
	case 2:
		return t.r.Range(0, maxLen)
	}
	m := 8
	if m > maxLen {
		m = maxLen
	}
	return t.r.Range(1, m)
}

// readerShape mirrors the Coq predicate reader_shape (coq/C07/Shape.v): what
// gtab.Read can deliver.  Outside it a panic is not a violation of C07.
func readerShape(c *Case) bool {
	covOK := func(cov []KV, n int) bool {
		for _, e := range cov {
			if e.V < 0 || e.V >= n {
				return false
			}
		}
		return true
	}
	for _, l := range c.LL {
		for _, s := range l.Subs {
			switch s.Kind {
			case "g12", "g81":
				if !covOK(s.Cov, len(s.Gids)) {
					return false
				}
			case "g21", "g31":
				if !covOK(s.Cov, len(s.Lists)) {
					return false
				}
			case "g41":
				if !covOK(s.Cov, len(s.Ligs)) {
					return false
				}
			case "sc1", "cc1":
				if !covOK(s.Cov, len(s.Rules)) {
					return false
				}
			case "sc3", "cc3":
				if len(s.SetsI) == 0 {
					return false
				}
			case "p12":
				if !covOK(s.Cov, len(s.Vs)) {
					return false
				}
			case "p31":
				if !covOK(s.Cov, len(s.EE)) {
					return false
				}
			case "p41", "p61":
				if !covOK(s.Cov, len(s.Marks)) || !covOK(s.Cov2, len(s.Bases)) {
					return false
				}
			}
		}
	}
	return true
}

func hasContext(c *Case) bool {
	for _, l := range c.LL {
		for _, s := range l.Subs {
			if s.Kind[0] == 's' || s.Kind[0] == 'c' {
				return true
			}
		}
	}
	return false
}

// emit runs one structured case, records it, and applies the oracle.
func emit(run *vlib.Run, c *Case, extra ...string) {
	line := c.Line()
	v := runStruct(c)
	shape := readerShape(c)
	labels := append(v.Labels, extra...)
	if !shape {
		labels = append(labels, "shape:not-deliverable-by-reader")
	}
	if hasContext(c) {
		labels = append(labels, "nested:contextual")
	}
	idx := run.Add(line, v.Impl, v.NonTri, labels...)
	// the harness' description of the table shape against Shape.v of the model
	run.Add(shapeLine(c), shapeImpl(c), false, "shape-predicates")
	if v.Fail != "" {
		if !shape && v.Sig == "c07-panic" {
			return // outside the quantifier: the reader cannot deliver this shape
		}
		run.Fail(idx, line, v.Fail, v.Sig)
	}
}

func shapeLine(c *Case) string {
	full := c.Line()
	// the first top-level item of the case line is the lookup list
	items, _ := vlib.Parse(full)
	return vlib.Line(vlib.Atom("shape"), items[0])
}

func shapeImpl(c *Case) string {
	ll, _, _ := c.Gtab()
	return vlib.Str(vlib.L(vlib.Bool(readerShape(c)), vlib.Bool(!unimplemented(ll)), vlib.Bool(!hasContext(c))))
}

func (t *tgen) history(maxLen int) [][]G {
	n := 1
	if t.r.Chance(1, 2) {
		n = t.r.Range(2, 5)
	}
	h := make([][]G, n)
	for i := range h {
		h[i] = t.glyphSeq(t.seqLen(maxLen))
	}
	return h
}

func (t *tgen) lookupOrder(n int) []int {
	switch t.r.Intn(5) {
	case 0:
		return []int{0}
	case 1:
		out := make([]int, n)
		for i := range out {
			out[i] = i
		}
		return out
	}
	m := t.r.Range(1, 4)
	out := make([]int, m)
	for i := range out {
		out[i] = t.r.Intn(n)
		if t.wild && t.r.Chance(1, 8) {
			out[i] = vlib.Pick(t.r, []int{n, n + 5, 65535})
		}
	}
	return out
}

// Gen writes the run for the given tier.
func Gen(run *vlib.Run, seed uint64, tier string) {
	run.Rule = "one case = lookup list + GDEF + lookup order + history of Apply calls on one Context; non-trivial = at least one call returns a sequence different from its input; distinct by the whole case line"
	root := vlib.NewRand(seed)

	// (0) keepFunc.Keep against the model's keepf, all flag choices x GDEF shapes
	{
		r := root.Fork("keep")
		n := vlib.Count(tier, 400, 4000)
		for i := 0; i < n; i++ {
			gd := genGdef(r)
			flags := vlib.Pick(r, flagChoices)
			if r.Chance(1, 4) {
				flags = r.Intn(65536)
			}
			mfs := vlib.Pick(r, []int{0, 1, 2, 3, 7, 65535})
			gl := alphabet()
			line := keepLine(flags, mfs, gd, gl)
			run.Add(line, runKeep(flags, mfs, gd, gl), flags != 0 && gd != nil && gd.HasClass, "keep")
		}
	}

	// (1) catalogue: every subtable kind, every flag choice, exhaustive short
	// sequences over a 4-glyph alphabet (one base, one more base, one mark, one ligature glyph)
	{
		r := root.Fork("catalogue")
		small := []int{1, 2, 10, 20}
		maxLen := vlib.Count(tier, 3, 4)
		tables := vlib.Count(tier, 4, 14)
		var seqs [][]int
		var rec func(prefix []int)
		rec = func(prefix []int) {
			seqs = append(seqs, append([]int(nil), prefix...))
			if len(prefix) == maxLen {
				return
			}
			for _, g := range small {
				rec(append(prefix, g))
			}
		}
		rec(nil)
		for _, kind := range simpleKinds {
			for k := 0; k < tables; k++ {
				t := &tgen{r: r, nLk: 1, alpha: small, wild: k%2 == 1}
				lk := &Lookup{Flags: vlib.Pick(r, flagChoices), MFS: r.Intn(3), Subs: []*Sub{t.sub(kind)}}
				gd := genGdef(r)
				// the history of one case = 4 consecutive sequences of the enumeration
				for i := 0; i < len(seqs); i += 4 {
					c := &Case{LL: []*Lookup{lk}, Gdef: gd, Lookups: []int{0}}
					for j := i; j < i+4 && j < len(seqs); j++ {
						var s []G
						for p, g := range seqs[j] {
							s = append(s, G{Gid: g, Text: []rune{rune('a' + p)}, A: 100 * (p + 1)})
						}
						c.Hist = append(c.Hist, s)
					}
					emit(run, c, "stream:catalogue")
				}
			}
		}
		// contextual kinds: a second lookup is the nested target
		for _, kind := range []string{"sc1", "sc2", "sc3", "cc1", "cc2", "cc3"} {
			for k := 0; k < tables; k++ {
				t := &tgen{r: r, nLk: 3, alpha: small, wild: k%2 == 1}
				ll := []*Lookup{
					{Flags: vlib.Pick(r, flagChoices), MFS: r.Intn(3), Subs: []*Sub{t.sub(kind)}},
					{Flags: vlib.Pick(r, flagChoices), MFS: r.Intn(3), Subs: []*Sub{t.sub(vlib.Pick(r, []string{"g11", "g21", "g41", "g12"}))}},
					{Flags: vlib.Pick(r, flagChoices), Subs: []*Sub{t.sub(vlib.Pick(r, []string{"g41", "g21", "sc1", "cc3"}))}},
				}
				gd := genGdef(r)
				for i := 0; i < len(seqs); i += 4 {
					c := &Case{LL: ll, Gdef: gd, Lookups: []int{0}}
					for j := i; j < i+4 && j < len(seqs); j++ {
						var s []G
						for p, g := range seqs[j] {
							s = append(s, G{Gid: g, Text: []rune{rune('a' + p)}})
						}
						c.Hist = append(c.Hist, s)
					}
					emit(run, c, "stream:catalogue-nested")
				}
			}
		}
	}

	// (2) random lookup lists of simple subtables, long sequences
	{
		r := root.Fork("simple")
		n := vlib.Count(tier, 1500, 20000)
		for i := 0; i < n; i++ {
			t := &tgen{r: r, alpha: alphabet(), wild: r.Chance(1, 3)}
			t.nLk = r.Range(1, 4)
			kinds := gsubKinds[:6]
			if r.Bool() {
				kinds = simpleKinds[6:]
			}
			c := &Case{Gdef: genGdef(r)}
			for j := 0; j < t.nLk; j++ {
				c.LL = append(c.LL, t.lookup(kinds, 2))
			}
			c.Lookups = t.lookupOrder(t.nLk)
			maxLen := 12
			if r.Chance(1, 8) {
				maxLen = 200
			}
			c.Hist = t.history(maxLen)
			emit(run, c, "stream:simple")
		}
	}

	// (3) nested: contextual rules pointing at any lookup of the list
	// (self-referential, deeply nested, more actions than the budget)
	{
		r := root.Fork("nested")
		n := vlib.Count(tier, 5000, 60000)
		for i := 0; i < n; i++ {
			t := &tgen{r: r, alpha: alphabet(), wild: r.Chance(1, 3)}
			if r.Chance(1, 3) {
				t.alpha = []int{1, 2, 10, 11, 20}
			}
			t.nLk = r.Range(1, 6)
			kinds := gsubKinds
			if r.Chance(1, 4) {
				kinds = gposKinds
			}
			c := &Case{Gdef: genGdef(r)}
			for j := 0; j < t.nLk; j++ {
				c.LL = append(c.LL, t.lookup(kinds, 3))
			}
			c.Lookups = t.lookupOrder(t.nLk)
			maxLen := 10
			if r.Chance(1, 25) {
				maxLen = 60
			}
			c.Hist = t.history(maxLen)
			emit(run, c, "stream:nested")
		}
	}

	// (4) shapes the reader cannot deliver (model and code must still agree,
	// including on the panics)
	{
		r := root.Fork("bad")
		n := vlib.Count(tier, 600, 6000)
		for i := 0; i < n; i++ {
			t := &tgen{r: r, alpha: []int{1, 2, 10, 20, 30}, wild: true, bad: true}
			t.nLk = r.Range(1, 3)
			c := &Case{Gdef: genGdef(r)}
			for j := 0; j < t.nLk; j++ {
				c.LL = append(c.LL, t.lookup(allKinds, 2))
			}
			c.Lookups = t.lookupOrder(t.nLk)
			c.Hist = t.history(6)
			emit(run, c, "stream:not-reader-shape")
		}
	}

	// (5) directed: the confirmed defects and their neighbourhood
	for _, c := range directed() {
		emit(run, c, "stream:directed")
	}

	for _, c := range staleDirected() {
		emit(run, c, "stream:directed", "stream:stale-directed")
	}

	// (5a) nested lookups that agree in a part of their meta data, histories
	// of Apply calls in both orders
	genStale(run, root.Fork("stale"), tier)

	// (5b) nested contextual calls inside one root rule, with inlined twins
	genDeep(run, root.Fork("deep"), tier)
	genOverrun(run, tier)

	// (6) tables that went through Encode / (mutation) / gtab.Read
	genRead(run, root.Fork("read"), tier)

	// (7) histories of Layout calls on one sfnt.Layouter (oracle only)
	genLayout(run, root.Fork("layouter"), tier)

	// (8) the families of (5a) through the public Layouter, feature lists,
	// default features, fonts without cmap (oracle only)
	genLayoutStale(run, root.Fork("layouter-stale"), tier)
}

// directed returns hand-written cases around the repaired defects.
func directed() []*Case {
	var out []*Case
	one := func(g ...int) []G {
		var s []G
		for i, x := range g {
			s = append(s, G{Gid: x, Text: []rune{rune('a' + i)}})
		}
		return s
	}
	many := func(n, seq, lk int) []Act {
		a := make([]Act, n)
		for i := range a {
			a[i] = Act{seq, lk}
		}
		return a
	}
	allCov := []int{1, 2, 3, 4, 5, 10, 11, 12, 20, 21, 30}
	inc := &Lookup{Subs: []*Sub{{Kind: "g11", Set: allCov, Delta: 1}}}
	markGdef := &Gdef{HasClass: true, Class: []KV{{10, 3}, {11, 3}, {12, 3}}, Sets: [][]int{{10}}}
	// stale stack after budget exhaustion (5.A-4), for every budget neighbourhood
	for _, n := range []int{62, 63, 64, 65, 70, 130} {
		out = append(out, &Case{
			LL: []*Lookup{{Subs: []*Sub{{Kind: "sc1", Cov: []KV{{1, 0}, {2, 1}},
				Rules: [][]Rule{{{Acts: many(n, 0, 1)}}, {{Acts: many(1, 0, 1)}}}}}}, inc},
			Lookups: []int{0}, Hist: [][]G{one(1), one(2), one(1, 2), one(2)}})
	}
	// stale frame pointing beyond a shorter sequence (5.A-11)
	out = append(out, &Case{
		LL: []*Lookup{{Subs: []*Sub{{Kind: "sc1", Cov: []KV{{1, 0}, {2, 1}},
			Rules: [][]Rule{{{In: []int{3, 3}, Acts: many(70, 2, 1)}}, {{Acts: many(1, 0, 1)}}}}}}, inc},
		Lookups: []int{0}, Hist: [][]G{one(1, 3, 3), one(2), one(2, 2)}})
	// out-of-range sequence index in front of a valid action
	out = append(out, &Case{
		LL: []*Lookup{{Subs: []*Sub{{Kind: "sc1", Cov: []KV{{1, 0}, {2, 1}},
			Rules: [][]Rule{{{In: []int{3, 3}, Acts: []Act{{5, 1}, {2, 1}, {65535, 1}, {0, 7}, {1, 1}}}}, {{Acts: many(1, 0, 1)}}}}}}, inc},
		Lookups: []int{0}, Hist: [][]G{one(1, 3, 3), one(2), one(1, 3, 3, 2)}})
	// self-referential rule
	out = append(out, &Case{
		LL:      []*Lookup{{Subs: []*Sub{{Kind: "sc1", Cov: []KV{{1, 0}}, Rules: [][]Rule{{{Acts: []Act{{0, 0}, {0, 1}}}}}}}}, inc},
		Lookups: []int{0}, Hist: [][]G{one(1, 1, 1), one(2, 1), one(1)}})
	// self-referential growth: every nested action doubles a glyph
	out = append(out, &Case{
		LL: []*Lookup{{Subs: []*Sub{{Kind: "sc3", SetsI: [][]int{{1}}, Acts: []Act{{0, 1}, {0, 0}, {1, 0}}}}},
			{Subs: []*Sub{{Kind: "g21", Cov: []KV{{1, 0}}, Lists: [][]int{{1, 1}}}}}},
		Lookups: []int{0}, Hist: [][]G{one(1), one(1, 1), one(2, 1, 2)}})
	// Gsub2_1 with an empty replacement (5.A-5)
	out = append(out, &Case{
		LL:      []*Lookup{{Subs: []*Sub{{Kind: "g21", Cov: []KV{{1, 0}, {2, 1}}, Lists: [][]int{{}, {3, 4}}}}}},
		Lookups: []int{0}, Hist: [][]G{one(1, 2), one(2, 1, 1), one()}})
	// Gsub4_1 second candidate across two skipped marks (5.A-6)
	for _, first := range [][]int{{2, 9}, {9}, {2, 2, 9}} {
		out = append(out, &Case{
			LL: []*Lookup{{Flags: 8, Subs: []*Sub{{Kind: "g41", Cov: []KV{{1, 0}},
				Ligs: [][]Lig{{{In: first, Out: 50}, {In: []int{2}, Out: 51}}}}}}},
			Gdef: markGdef, Lookups: []int{0}, Hist: [][]G{one(1, 10, 11, 2, 3), one(1, 2), one(1, 10, 2, 11, 2, 9)}})
	}
	// mark filtering set index beyond MarkGlyphSets (5.A-7)
	for _, mfs := range []int{0, 1, 7, 65535} {
		out = append(out, &Case{
			LL:   []*Lookup{{Flags: 0x10, MFS: mfs, Subs: []*Sub{{Kind: "g11", Set: []int{10, 11, 1}, Delta: 1}}}},
			Gdef: markGdef, Lookups: []int{0}, Hist: [][]G{one(10, 11, 1)}})
		out = append(out, &Case{
			LL:   []*Lookup{{Flags: 0x10, MFS: mfs, Subs: []*Sub{{Kind: "g11", Set: []int{10, 11, 1}, Delta: 1}}}},
			Gdef: &Gdef{HasClass: true, Class: []KV{{10, 3}}}, Lookups: []int{0}, Hist: [][]G{one(10, 11, 1)}})
	}
	// SeqContext2 class beyond Rules (5.A-8)
	for _, cls := range []int{0, 1, 2, 9, 65535} {
		out = append(out, &Case{
			LL: []*Lookup{{Subs: []*Sub{{Kind: "sc2", Cov: []KV{{1, 0}}, Cls: []KV{{1, cls}},
				Rules: [][]Rule{{}, {{Acts: []Act{{0, 1}}}}}}}}, inc},
			Lookups: []int{0}, Hist: [][]G{one(1, 1)}})
	}
	// ChainedSeqContext3: sequence index 1 is the second input glyph (5.A-9)
	out = append(out, &Case{
		LL:      []*Lookup{{Subs: []*Sub{{Kind: "cc3", SetsI: [][]int{{1}, {2}}, Acts: []Act{{1, 1}, {0, 1}, {2, 1}}}}}, inc},
		Lookups: []int{0}, Hist: [][]G{one(1, 2), one(1, 2, 1, 2)}})
	// ligature in a nested lookup swallowing glyphs the parent ignores:
	// EndPos must shrink (fixes/C07-merge-endpos.diff)
	for _, tail := range [][]Act{{{0, 1}, {0, 2}}, {{0, 1}, {0, 3}}, {{0, 1}}} {
		out = append(out, &Case{
			LL: []*Lookup{
				{Flags: 8, Subs: []*Sub{{Kind: "sc1", Cov: []KV{{1, 0}}, Rules: [][]Rule{{{Acts: tail}}}}}},
				{Subs: []*Sub{{Kind: "g41", Cov: []KV{{1, 0}}, Ligs: [][]Lig{{{In: []int{10, 10}, Out: 5}}}}}},
				{Subs: []*Sub{{Kind: "sc1", Cov: []KV{{5, 0}}, Rules: [][]Rule{{{In: []int{7}}}}}}},
				{Subs: []*Sub{{Kind: "p21", Pairs: []PairEnt{{5, 1, &VR{1, 1, 1, 0, 0, 0, 0, 0}, nil}}}}},
			},
			Gdef: markGdef, Lookups: []int{0}, Hist: [][]G{one(1, 10, 10), one(1, 10, 10, 1), one(1, 10, 10, 10, 1, 10)}})
	}
	// ligature in a nested lookup whose flags skip a glyph that belongs to the
	// PARENT's input (the parent ignores nothing): the parent's recorded input
	// positions behind the merged glyphs must move down by the number of
	// glyphs the ligature removed, for every place the skipped glyph can stand
	// in and every later action index
	for nc := 2; nc <= 4; nc++ {
		for gap := 1; gap < nc; gap++ {
			for _, tailGlyph := range []int{0, 2} {
				var seq []int
				for i := 0; i < gap; i++ {
					seq = append(seq, 1)
				}
				seq = append(seq, 10)
				for i := gap; i < nc; i++ {
					seq = append(seq, 1)
				}
				if tailGlyph != 0 {
					seq = append(seq, tailGlyph)
				}
				ligIn := make([]int, nc-1)
				for i := range ligIn {
					ligIn[i] = 1
				}
				for k := 0; k <= len(seq); k++ {
					out = append(out, &Case{
						LL: []*Lookup{
							{Subs: []*Sub{{Kind: "sc1", Cov: []KV{{1, 0}}, Rules: [][]Rule{{{In: append([]int{}, seq[1:]...), Acts: []Act{{0, 1}, {k, 2}, {1, 2}}}}}}}},
							{Flags: 8, Subs: []*Sub{{Kind: "g41", Cov: []KV{{1, 0}}, Ligs: [][]Lig{{{In: ligIn, Out: 5}}}}}},
							inc,
						},
						Gdef: markGdef, Lookups: []int{0}, Hist: [][]G{one(seq...), one(append(append([]int{}, seq...), seq...)...)}})
				}
			}
		}
	}
	// mark class beyond the anchor row (GPOS 4.1 / 6.1)
	for _, kind := range []string{"p41", "p61"} {
		for _, cls := range []int{0, 1, 3, 65535} {
			out = append(out, &Case{
				LL: []*Lookup{{Subs: []*Sub{{Kind: kind, Cov: []KV{{10, 0}}, Cov2: []KV{{1, 0}},
					Marks: []MarkRec{{cls, 1, 1}}, Bases: [][][2]int{{{5, 5}}}}}}},
				Lookups: []int{0}, Hist: [][]G{{{Gid: 1, Text: []rune("a"), A: 500}, {Gid: 10, Text: []rune("b")}}, one(10, 1)}})
		}
	}
	// out-of-range lookup indices in the lookup order and in actions
	out = append(out, &Case{
		LL:      []*Lookup{{Subs: []*Sub{{Kind: "cc1", Cov: []KV{{1, 0}}, Rules: [][]Rule{{{Acts: []Act{{0, 1}, {0, 2}, {0, 65535}, {0, 1}}}}}}}}, inc},
		Lookups: []int{2, 0, 65535, 1}, Hist: [][]G{one(1, 1, 2)}})
	// deep nesting: lookup i calls lookup i+1
	{
		n := 40
		c := &Case{Lookups: []int{0}, Hist: [][]G{one(1, 1), one(1)}}
		for i := 0; i < n; i++ {
			c.LL = append(c.LL, &Lookup{Subs: []*Sub{{Kind: "sc3", SetsI: [][]int{{1, 2, 3}}, Acts: []Act{{0, i + 1}, {0, n}}}}})
		}
		c.LL = append(c.LL, inc)
		out = append(out, c)
	}
	return out
}

// ---------------------------------------------------------------- Encode / mutate / Read

func encodeInfo(c *Case) (data []byte, tp string, ok bool) {
	defer func() {
		if e := recover(); e != nil {
			ok = false
		}
	}()
	return encodeInfoNoRecover(c)
}

func encodeInfoNoRecover(c *Case) (data []byte, tp string, ok bool) {
	ll, _, _ := c.Gtab()
	tp = "gsub"
	for _, l := range c.LL {
		for _, s := range l.Subs {
			if isGpos(s.Kind) {
				tp = "gpos"
			}
		}
	}
	info := &gtab.Info{
		ScriptList:  gtab.ScriptListInfo{language.MustParse("und-Latn"): {Required: 0xFFFF, Optional: []gtab.FeatureIndex{0}}},
		FeatureList: gtab.FeatureListInfo{{Tag: "test", Lookups: []gtab.LookupIndex{0}}},
		LookupList:  ll,
	}
	return info.Encode(), tp, true
}

func genRead(run *vlib.Run, r *vlib.Rand, tier string) {
	n := vlib.Count(tier, 700, 8000)
	valid, accepted, rejected, modelled := 0, 0, 0, 0
	for i := 0; i < n; i++ {
		t := &tgen{r: r, alpha: []int{1, 2, 3, 10, 11, 20}, wild: r.Chance(1, 2), sortCov: true}
		t.nLk = r.Range(1, 4)
		kinds := gsubKinds
		if r.Chance(1, 3) {
			kinds = gposKinds
		}
		c := &Case{Gdef: genGdef(r)}
		for j := 0; j < t.nLk; j++ {
			c.LL = append(c.LL, t.lookup(kinds, 2))
		}
		// a lookup must be homogeneous for the encoder
		for _, l := range c.LL {
			for j := range l.Subs {
				if lookupTypes[l.Subs[j].Kind] != lookupTypes[l.Subs[0].Kind] || isGpos(l.Subs[j].Kind) != isGpos(l.Subs[0].Kind) {
					l.Subs[j] = l.Subs[0]
				}
			}
		}
		c.Lookups = t.lookupOrder(t.nLk)
		c.Hist = t.history(8)
		data, tp, ok := encodeInfo(c)
		if !ok {
			continue
		}
		valid++
		variants := [][]byte{data}
		for m := vlib.Count(tier, 3, 6); m > 0; m-- {
			d := append([]byte(nil), data...)
			switch r.Intn(4) {
			case 0: // truncation
				d = d[:r.Intn(len(d)+1)]
			case 1: // a 16-bit field gets a boundary value
				if len(d) >= 12 {
					p := 10 + r.Intn(len(d)-11)
					v := vlib.Pick(r, []int{0, 1, 2, 0xFFFF, 0x7FFF, 0x8000, len(d), len(d) - 2})
					d[p], d[p+1] = byte(v>>8), byte(v)
				}
			default: // 1-3 byte mutations behind the header
				for k := r.Range(1, 3); k > 0 && len(d) > 10; k-- {
					d[10+r.Intn(len(d)-10)] = byte(r.Uint64())
				}
			}
			variants = append(variants, d)
		}
		// counts and offsets off by one: a 16-bit word decremented or incremented
		// (a count one smaller than the array it counts is the typical "almost
		// well-formed" table: the reader accepts it and must deliver a consistent
		// structure)
		for m := vlib.Count(tier, 8, 24); m > 0 && len(data) >= 14; m-- {
			d := append([]byte(nil), data...)
			p := 10 + 2*r.Intn((len(d)-10)/2)
			v := int(d[p])<<8 | int(d[p+1])
			if r.Chance(2, 3) {
				if v == 0 {
					continue
				}
				v--
			} else {
				v = (v + 1) & 0xFFFF
			}
			d[p], d[p+1] = byte(v>>8), byte(v)
			variants = append(variants, d)
		}
		for vi, d := range variants {
			info, err := readTables(tp, d)
			if err != nil || info == nil {
				rejected++
				continue
			}
			accepted++
			lls, conv := LLFromGtab(info.LookupList)
			label := "stream:read-valid"
			if vi > 0 {
				label = "stream:read-mutated"
			}
			if conv {
				c2 := &Case{LL: lls, Gdef: c.Gdef, Lookups: c.Lookups, Hist: c.Hist}
				if line := c2.Line(); len(line) < 200000 {
					if !readerShape(c2) {
						idx := run.Add(line, "n/a", false, label)
						run.Fail(idx, line, "gtab.Read delivered a table outside reader_shape", "c07-reader-shape")
						continue
					}
					modelled++
					emit(run, c2, label)
					continue
				}
			}
			// oracle only: run the tables exactly as the reader returned them
			v := oracle(readTablesFunc(tp, d, c), c.Hist)
			line := readLine(tp, d, c.Gdef, c.Lookups, c.Hist)
			idx := run.Add(line, v.Impl, v.NonTri, label, "oracle-only")
			if v.Fail != "" {
				run.Fail(idx, line, v.Fail, v.Sig)
			}
		}
	}
	run.Extra["read_stream"] = fmt.Sprintf("%d encodable lookup lists, %d byte strings accepted by gtab.Read (%d converted for the model), %d rejected", valid, accepted, modelled, rejected)
}

// DirectedLines returns the case lines of the directed stream (used to seed corpus/C07).
func DirectedLines() []string {
	var out []string
	for _, c := range directed() {
		out = append(out, c.Line())
	}
	return out
}
