package c07

import (
	"errors"
	"fmt"
	"sort"

	"golang.org/x/text/language"
	"seehuhn.de/go/postscript/funit"
	"seehuhn.de/go/sfnt"
	"seehuhn.de/go/sfnt/glyph"
	"seehuhn.de/go/sfnt/opentype/gtab"
	"seehuhn.de/go/sfnt/verifharness/vlib"
)

// Layouter histories with explicit script / feature lists (oracle only).
//
//	line: !layout2 spec spec gdef (nocmap sel sel) ( (rune ...) ... )
//	spec = nil | ( ll req (opt ...) ((tag (lookup ...)) ...) [scripts] )
//	       req = index of the required feature (65535: none), -1: the language
//	       system entry of the script list is nil, -2: the script list is empty
//	sel  = nil (the library's default features) | (tag ...)
//
// Only the lookups of the required feature and of the selected optional
// features are top-level lookups; everything else in the lookup list is
// reachable as nested lookup only.  Oracle: NewLayouter fails exactly for a
// font without cmap and never panics; Layout does not panic, conserves the
// runes, gives on the reused Layouter what a new Layouter (new font, new
// tables) gives for every call, is independent of the order of the earlier
// calls, and equals the pipeline written out by hand (cmap, GSUB Context on
// the selected lookups in ascending order, advance widths of non-marks, GPOS
// Context) on new Contexts.

type featSpec struct {
	Tag     string
	Lookups []int
}

type fontSpec struct {
	LL    []*Lookup
	Req   int
	Opt   []int
	Feats []featSpec
	// Scripts: 0 = the script list has the entry und-Latn only; 1 = und-Latn
	// plus und-Cyrl and und-Grek, whose required feature is feature 1;
	// 2 = no und-Latn entry: the features sit under und-Cyrl, und-Grek and
	// und-Hebr have feature 1 (nothing matches the language und-Latn, the
	// entry that comes first in tag order is the documented fallback)
	Scripts int
}

type layoutOpts struct {
	NoCmap           bool
	GsubSel, GposSel []string
	GsubDef, GposDef bool // nil feature map: the library's defaults
}

func (fs *fontSpec) info() *gtab.Info {
	if fs == nil {
		return nil
	}
	ll := fs.LL
	if ll == nil {
		ll = []*Lookup{}
	}
	c := &Case{LL: ll}
	tab, _, _ := c.Gtab()
	info := &gtab.Info{LookupList: tab, FeatureList: gtab.FeatureListInfo{}}
	for _, f := range fs.Feats {
		ft := &gtab.Feature{Tag: f.Tag}
		for _, l := range f.Lookups {
			ft.Lookups = append(ft.Lookups, gtab.LookupIndex(l))
		}
		info.FeatureList = append(info.FeatureList, ft)
	}
	tag := language.MustParse("und-Latn")
	switch fs.Req {
	case -2:
		info.ScriptList = gtab.ScriptListInfo{}
	case -1:
		info.ScriptList = gtab.ScriptListInfo{tag: nil}
	default:
		fe := &gtab.Features{Required: gtab.FeatureIndex(fs.Req)}
		for _, o := range fs.Opt {
			fe.Optional = append(fe.Optional, gtab.FeatureIndex(o))
		}
		info.ScriptList = gtab.ScriptListInfo{tag: fe}
		other := func() *gtab.Features { return &gtab.Features{Required: 1} }
		switch fs.Scripts {
		case 1:
			info.ScriptList[language.MustParse("und-Cyrl")] = other()
			info.ScriptList[language.MustParse("und-Grek")] = other()
		case 2:
			info.ScriptList = gtab.ScriptListInfo{language.MustParse("und-Cyrl"): fe,
				language.MustParse("und-Grek"): other(), language.MustParse("und-Hebr"): other()}
		}
	}
	return info
}

// selected is the specification of the lookup selection: the lookups of the
// required feature and of the optional features whose tag is selected, each
// once, in ascending order, indices beyond the lookup list dropped.
func (fs *fontSpec) selected(sel map[string]bool) []gtab.LookupIndex {
	if fs == nil || fs.Req < 0 {
		return nil
	}
	in := map[int]bool{}
	if fs.Req < len(fs.Feats) {
		for _, l := range fs.Feats[fs.Req].Lookups {
			in[l] = true
		}
	}
	for _, o := range fs.Opt {
		if o < len(fs.Feats) && sel[fs.Feats[o].Tag] {
			for _, l := range fs.Feats[o].Lookups {
				in[l] = true
			}
		}
	}
	var out []int
	for l := range in {
		if l < len(fs.LL) {
			out = append(out, l)
		}
	}
	sort.Ints(out)
	res := make([]gtab.LookupIndex, len(out))
	for i, l := range out {
		res[i] = gtab.LookupIndex(l)
	}
	return res
}

func selMap(def bool, tags []string, defaults map[string]bool) (arg, eff map[string]bool) {
	if def {
		return nil, defaults
	}
	m := map[string]bool{}
	for _, t := range tags {
		m[t] = true
	}
	return m, m
}

func makeFont(gsub, gpos *fontSpec, gd *Gdef, o layoutOpts) *sfnt.Font {
	font := simpleFont()
	font.Gsub = gsub.info()
	font.Gpos = gpos.info()
	c := &Case{Gdef: gd}
	_, g, _ := c.Gtab()
	font.Gdef = g
	if o.NoCmap {
		font.CMapTable = nil
	}
	return font
}

func newLayouter2(gsub, gpos *fontSpec, gd *Gdef, o layoutOpts) (l *sfnt.Layouter, err error) {
	font := makeFont(gsub, gpos, gd, o)
	gs, _ := selMap(o.GsubDef, o.GsubSel, gtab.GsubDefaultFeatures)
	gp, _ := selMap(o.GposDef, o.GposSel, gtab.GposDefaultFeatures)
	return font.NewLayouter(language.MustParse("und-Latn"), gs, gp)
}

// byHand is Layout written out: new font, new tables, new Contexts.
func byHand(gsub, gpos *fontSpec, gd *Gdef, o layoutOpts, s string) (st step) {
	defer func() {
		if e := recover(); e != nil {
			st = step{Panic: true, Msg: fmt.Sprint(e)}
		}
	}()
	font := makeFont(gsub, gpos, gd, o)
	cm, err := font.CMapTable.GetBest()
	if err != nil {
		return step{Panic: true, Msg: err.Error()}
	}
	var seq []glyph.Info
	for _, r := range s {
		seq = append(seq, glyph.Info{GID: cm.Lookup(r), Text: []rune{r}})
	}
	if font.Gsub != nil {
		_, eff := selMap(o.GsubDef, o.GsubSel, gtab.GsubDefaultFeatures)
		seq = gtab.NewContext(font.Gsub.LookupList, font.Gdef, gsub.selected(eff)).Apply(seq)
	}
	for i := range seq {
		// a glyph id that is not in the font has no width
		if int(seq[i].GID) < font.NumGlyphs() && !font.Gdef.IsMark(seq[i].GID) {
			seq[i].Advance = funit.Int16(font.GlyphWidth(seq[i].GID))
		}
	}
	if font.Gpos != nil {
		_, eff := selMap(o.GposDef, o.GposSel, gtab.GposDefaultFeatures)
		seq = gtab.NewContext(font.Gpos.LookupList, font.Gdef, gpos.selected(eff)).Apply(seq)
	}
	return step{Out: fromInfo(seq)}
}

func layoutOracle2(gsub, gpos *fontSpec, gd *Gdef, o layoutOpts, strs []string) verdict {
	mk := func() (*sfnt.Layouter, error) { return newLayouter2(gsub, gpos, gd, o) }
	v := layoutOracleWith(mk, strs, o.NoCmap)
	if v.Fail != "" || v.Impl == "nolayouter" || v.Impl == "hang" {
		return v
	}
	// the pipeline by hand
	steps, _ := guarded(func() []step { s, _ := layoutHistoryWith(mk, strs); return s })
	for i, s := range steps {
		if s.Panic {
			continue
		}
		want, ok := guarded(func() step { return byHand(gsub, gpos, gd, o, strs[i]) })
		if ok && !sameStep(want, s) {
			v.Fail = fmt.Sprintf("Layout call %d gives %s, cmap + GSUB Context + widths + GPOS Context on the selected lookups give %s", i, obsSx([]step{s}), obsSx([]step{want}))
			v.Sig = "c07-layout-pipeline"
			break
		}
		for j, g := range s.Out {
			if j >= len([]rune(strs[i])) || g.X != 0 || g.Y != 0 || g.Gid != int([]rune(strs[i])[j]-'A')+layoutFirstGid {
				v.NonTri = true
			}
		}
	}
	return v
}

// ---------------------------------------------------------------- syntax

func (fs *fontSpec) sx() vlib.Sx {
	if fs == nil {
		return vlib.Atom("nil")
	}
	ll := fs.LL
	if ll == nil {
		ll = []*Lookup{}
	}
	fl := make(vlib.List, len(fs.Feats))
	for i, f := range fs.Feats {
		fl[i] = vlib.L(vlib.Atom(f.Tag), ints(f.Lookups))
	}
	if fs.Scripts != 0 {
		return vlib.L(llSx(ll), vlib.Int(fs.Req), ints(fs.Opt), fl, vlib.Int(fs.Scripts))
	}
	return vlib.L(llSx(ll), vlib.Int(fs.Req), ints(fs.Opt), fl)
}

func selSx(def bool, tags []string) vlib.Sx {
	if def {
		return vlib.Atom("nil")
	}
	l := make(vlib.List, len(tags))
	for i, t := range tags {
		l[i] = vlib.Atom(t)
	}
	return l
}

func layoutLine2(gsub, gpos *fontSpec, gd *Gdef, o layoutOpts, strs []string) string {
	h := make(vlib.List, len(strs))
	for i, s := range strs {
		l := vlib.List{}
		for _, r := range s {
			l = append(l, vlib.Int(int(r)))
		}
		h[i] = l
	}
	opts := vlib.L(vlib.Bool(o.NoCmap), selSx(o.GsubDef, o.GsubSel), selSx(o.GposDef, o.GposSel))
	return vlib.Line(vlib.Atom("!layout2"), gsub.sx(), gpos.sx(), gd.Sx(), opts, h)
}

func parseFontSpec(x vlib.Sx) (fs *fontSpec, err error) {
	if a, ok := x.(vlib.Atom); ok && a == "nil" {
		return nil, nil
	}
	defer func() {
		if e := recover(); e != nil {
			if pe, ok := e.(perr); ok {
				fs, err = nil, pe.err
				return
			}
			panic(e)
		}
	}()
	f := plist(x)
	if len(f) != 4 && len(f) != 5 {
		return nil, errors.New("font spec: 4 or 5 fields expected")
	}
	ll, err := parseLL(f[0])
	if err != nil {
		return nil, err
	}
	fs = &fontSpec{LL: ll, Req: pint(f[1]), Opt: pints(f[2])}
	if len(f) == 5 {
		fs.Scripts = pint(f[4])
	}
	for _, y := range plist(f[3]) {
		q := plist(y)
		if len(q) != 2 {
			return nil, errors.New("feature: 2 fields expected")
		}
		fs.Feats = append(fs.Feats, featSpec{Tag: must(vlib.AsAtom(q[0])), Lookups: pints(q[1])})
	}
	return fs, nil
}

func parseSel(x vlib.Sx) (def bool, tags []string, err error) {
	if a, ok := x.(vlib.Atom); ok && a == "nil" {
		return true, nil, nil
	}
	l, err := vlib.AsList(x)
	if err != nil {
		return false, nil, err
	}
	for _, y := range l {
		t, err := vlib.AsAtom(y)
		if err != nil {
			return false, nil, err
		}
		tags = append(tags, t)
	}
	return false, tags, nil
}

func parseStrs(x vlib.Sx) ([]string, error) {
	hl, err := vlib.AsList(x)
	if err != nil {
		return nil, err
	}
	var strs []string
	for _, y := range hl {
		rs, err := vlib.AsInts(y)
		if err != nil {
			return nil, err
		}
		s := ""
		for _, r := range rs {
			s += string(rune(r))
		}
		strs = append(strs, s)
	}
	return strs, nil
}

func runLayoutLine2(items []vlib.Sx) (impl, fail, sig string, err error) {
	if len(items) != 6 {
		return "", "", "", errors.New("!layout2 case: want 6 items")
	}
	gsub, err := parseFontSpec(items[1])
	if err != nil {
		return "", "", "", err
	}
	gpos, err := parseFontSpec(items[2])
	if err != nil {
		return "", "", "", err
	}
	c, err := ParseCase([]vlib.Sx{vlib.List{}, items[3], vlib.List{}, vlib.List{}})
	if err != nil {
		return "", "", "", err
	}
	ol, err := vlib.AsList(items[4])
	if err != nil || len(ol) != 3 {
		return "", "", "", errors.New("!layout2 case: options (nocmap sel sel) expected")
	}
	var o layoutOpts
	if o.NoCmap, err = vlib.AsBool(ol[0]); err != nil {
		return "", "", "", err
	}
	if o.GsubDef, o.GsubSel, err = parseSel(ol[1]); err != nil {
		return "", "", "", err
	}
	if o.GposDef, o.GposSel, err = parseSel(ol[2]); err != nil {
		return "", "", "", err
	}
	strs, err := parseStrs(items[5])
	if err != nil {
		return "", "", "", err
	}
	v := layoutOracle2(gsub, gpos, c.Gdef, o, strs)
	return v.Impl, v.Fail, v.Sig, nil
}

// ---------------------------------------------------------------- generator

func gidsToString(s []int) string {
	out := ""
	for _, g := range s {
		out += string(rune('A' + g - layoutFirstGid))
	}
	return out
}

// famSpec wraps a family into a font spec: the roots are the lookups of the
// selected feature; the children sit in a feature nobody selects.
func famSpec(r *vlib.Rand, f *family, tag string) *fontSpec {
	fs := &fontSpec{LL: f.LL, Req: 0}
	var rest []int
	isRoot := map[int]bool{}
	for _, l := range f.Roots {
		isRoot[l] = true
	}
	for i := range f.LL {
		if !isRoot[i] {
			rest = append(rest, i)
		}
	}
	fs.Feats = []featSpec{{tag, f.Roots}, {"zzzz", rest}}
	switch r.Intn(6) {
	case 0: // roots in an optional feature, no required feature
		fs.Req, fs.Opt = 65535, []int{1, 0}
	case 1: // required feature index out of range, optional features with bad indices
		fs.Req, fs.Opt = 7, []int{0, 5, 65535, 1}
	case 2: // lookup indices beyond the lookup list inside the feature
		fs.Feats[0].Lookups = append(append([]int{len(f.LL) + 2}, f.Roots...), 65535)
		fs.Opt = []int{1}
	case 3: // the same lookup through the required and an optional feature
		fs.Feats = append(fs.Feats, featSpec{tag, f.Roots})
		fs.Opt = []int{2, 1}
	}
	if r.Chance(1, 5) {
		fs.Scripts = r.Range(1, 2)
	}
	return fs
}

func genLayoutStale(run *vlib.Run, r *vlib.Rand, tier string) {
	for _, c := range beyondFont() {
		v := layoutOracle2(c.gsub, c.gpos, c.gd, c.o, c.strs)
		line := layoutLine2(c.gsub, c.gpos, c.gd, c.o, c.strs)
		idx := run.Add(line, v.Impl, v.NonTri, "stream:layouter-stale", "oracle-only", "layouter:gid-beyond-font")
		if v.Fail != "" {
			run.Fail(idx, line, v.Fail, v.Sig)
		}
	}
	n := vlib.Count(tier, 360, 6000)
	p := palFont
	for i := 0; i < n; i++ {
		var gd *Gdef
		if !r.Chance(1, 12) {
			gd = p.gdef(r)
		}
		var o layoutOpts
		var gsub, gpos *fontSpec
		labels := []string{"stream:layouter-stale", "oracle-only"}
		rootKind := ctxKinds[i%6]
		dim := familyDims[(i/6)%len(familyDims)]
		if r.Chance(5, 6) {
			body := familyBodiesGsub[(i/30)%len(familyBodiesGsub)]
			tag := "test"
			if o.GsubDef = r.Chance(1, 4); o.GsubDef {
				tag = vlib.Pick(r, []string{"liga", "liga", "calt", "test"})
			} else {
				o.GsubSel = vlib.Pick(r, [][]string{{"test"}, {"test", "liga"}, {"test", "zzz2"}})
			}
			gsub = famSpec(r, p.buildFamily(r, rootKind, dim, body), tag)
			labels = append(labels, "stale-dim:"+dim, "stale-root:"+rootKind, "stale-body:"+body)
		}
		if gsub == nil || r.Chance(1, 2) {
			body := familyBodiesGpos[(i/30)%len(familyBodiesGpos)]
			tag := "test"
			if o.GposDef = r.Chance(1, 4); o.GposDef {
				tag = vlib.Pick(r, []string{"kern", "mark", "test"})
			} else {
				o.GposSel = vlib.Pick(r, [][]string{{"test"}, {"test", "kern"}, {}})
			}
			gpos = famSpec(r, p.buildFamily(r, vlib.Pick(r, ctxKinds), dim, body), tag)
			labels = append(labels, "stale-body:"+body)
		}
		switch r.Intn(40) {
		case 0:
			o.NoCmap = true
			labels = append(labels, "layouter:no-cmap")
		case 1:
			if gsub != nil {
				gsub.Req = -1
			}
			labels = append(labels, "layouter:nil-langsys")
		case 2:
			if gpos != nil {
				gpos.Req = -2
			} else if gsub != nil {
				gsub.Req = -2
			}
			labels = append(labels, "layouter:empty-scriptlist")
		case 3:
			if gsub != nil {
				gsub.LL, gsub.Feats = nil, nil
			}
			labels = append(labels, "layouter:empty-lookuplist")
		}
		var strs []string
		for _, s := range p.famHistory(r) {
			strs = append(strs, gidsToString(s))
		}
		v := layoutOracle2(gsub, gpos, gd, o, strs)
		line := layoutLine2(gsub, gpos, gd, o, strs)
		idx := run.Add(line, v.Impl, v.NonTri, labels...)
		if v.Fail != "" {
			run.Fail(idx, line, v.Fail, v.Sig)
		}
	}
}

// beyondFont: substitutions whose result is a glyph id the font does not have
// (debug.MakeSimpleFont has 33 glyphs); fixes/C07-layout-gid-beyond-font.diff.
type layoutCase struct {
	gsub, gpos *fontSpec
	gd         *Gdef
	o          layoutOpts
	strs       []string
}

func beyondFont() []layoutCase {
	var out []layoutCase
	feat := func(ll []*Lookup) *fontSpec {
		return &fontSpec{LL: ll, Req: 0, Feats: []featSpec{{"test", []int{0}}}}
	}
	for i, big := range []int{33, 34, 200, 65535} {
		subs := []*Sub{
			{Kind: "g12", Cov: []KV{{4, 0}}, Gids: []int{big}},
			{Kind: "g21", Cov: []KV{{4, 0}}, Lists: [][]int{{big, 5, big}}},
			{Kind: "g41", Cov: []KV{{4, 0}}, Ligs: [][]Lig{{{In: []int{5}, Out: big}}}},
			{Kind: "g11", Set: []int{4}, Delta: (big - 4) & 0xFFFF},
		}
		for j, sub := range subs {
			c := layoutCase{gsub: feat([]*Lookup{{Subs: []*Sub{sub}}}), o: layoutOpts{GsubSel: []string{"test"}, GposSel: []string{"test"}},
				strs: []string{"AB", "BA", "AAB", "B"}}
			if (i+j)%2 == 0 {
				c.gpos = feat([]*Lookup{{Subs: []*Sub{{Kind: "p11", Set: []int{big, 5}, V: &VR{1, 2, 3, 0, 0, 0, 0, 0}}}}})
			}
			if j%2 == 1 {
				c.gd = &Gdef{HasClass: true, Class: []KV{{4, 1}, {5, 1}, {big, 3}}}
			}
			out = append(out, c)
		}
	}
	return out
}

// LayoutDirectedLines: one hand-written Layouter case (corpus/C07/stale-layouter.txt).
func LayoutDirectedLines() []string {
	p := palFont
	lig := func() []*Sub {
		return []*Sub{{Kind: "g41", Cov: []KV{{4, 0}, {5, 1}}, Ligs: [][]Lig{{{In: []int{7}, Out: 13}}, {{In: []int{7}, Out: 14}}}}}
	}
	gsub := &fontSpec{Req: 65535, Opt: []int{0}, Feats: []featSpec{{"test", []int{0}}, {"zzzz", []int{1, 2}}},
		LL: []*Lookup{
			{Flags: 8, Subs: p.ctxBuild("sc1", []hrule{
				{In: [][]int{{4}, {7}}, Acts: []Act{{0, 1}}},
				{In: [][]int{{5}, {7}}, Acts: []Act{{0, 2}}}})},
			{Flags: 0x10, MFS: 0, Subs: lig()},
			{Flags: 0x10, MFS: 1, Subs: lig()},
		}}
	pair := func() []*Sub {
		return []*Sub{{Kind: "p21", Pairs: []PairEnt{
			{13, 8, &VR{0, 0, 10, 0, 0, 0, 0, 0}, &VR{5, 0, 0, 0, 0, 0, 0, 0}},
			{14, 8, &VR{0, 0, 20, 0, 0, 0, 0, 0}, nil}}}}
	}
	gpos := &fontSpec{Req: 0, Feats: []featSpec{{"kern", []int{0}}},
		LL: []*Lookup{
			{Flags: 8, Subs: p.ctxBuild("cc3", []hrule{
				{In: [][]int{{13}, {8}}, Acts: []Act{{0, 1}}},
				{In: [][]int{{14}, {8}}, Acts: []Act{{0, 2}}}})},
			{Flags: 0x100, Subs: pair()},
			{Flags: 0x200, Subs: pair()},
		}}
	gd := &Gdef{HasClass: true,
		Class:  []KV{{4, 1}, {5, 1}, {7, 1}, {8, 1}, {10, 3}, {11, 3}, {12, 3}, {13, 2}, {14, 2}},
		Attach: []KV{{10, 1}, {11, 2}, {12, 3}},
		Sets:   [][]int{{10}, {11}, {12}}}
	o := layoutOpts{GsubSel: []string{"test"}, GposDef: true}
	strs := []string{gidsToString([]int{5, 7, 10, 8}), gidsToString([]int{4, 11, 7, 11, 8}), gidsToString([]int{5, 10, 7, 10, 8}),
		gidsToString([]int{4, 11, 7, 11, 8, 5, 10, 7, 10, 8}), gidsToString([]int{4, 10, 7, 8})}
	out := []string{layoutLine2(gsub, gpos, gd, o, strs)}
	bf := beyondFont()
	for _, i := range []int{0, 5, 14} {
		c := bf[i]
		out = append(out, layoutLine2(c.gsub, c.gpos, c.gd, c.o, c.strs))
	}
	return out
}
