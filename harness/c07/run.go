package c07

import (
	"bytes"
	"errors"
	"fmt"
	"sort"
	"strings"
	"time"

	"seehuhn.de/go/sfnt/glyph"
	"seehuhn.de/go/sfnt/opentype/gdef"
	"seehuhn.de/go/sfnt/opentype/gtab"
	"seehuhn.de/go/sfnt/verifharness/vlib"
)

const watchdog = 20 * time.Second

type step struct {
	Panic bool
	Msg   string
	Out   []G
	Stack int
}

// applyOnce runs one Apply call, turning a panic into an observation.
func applyOnce(ctx *gtab.Context, in []G) (st step) {
	defer func() {
		if e := recover(); e != nil {
			st = step{Panic: true, Msg: fmt.Sprint(e)}
		}
	}()
	out := ctx.Apply(toInfo(in))
	return step{Out: fromInfo(out), Stack: ctx.VerifC07StackLen()}
}

// runHistory applies the inputs one after the other on ONE context; the run
// stops at the first panic (the context is then in an unspecified state).
func runHistory(ll gtab.LookupList, gd *gdef.Table, lookups []gtab.LookupIndex, hist [][]G) []step {
	ctx := gtab.NewContext(ll, gd, lookups)
	var out []step
	for _, in := range hist {
		st := applyOnce(ctx, in)
		out = append(out, st)
		if st.Panic {
			break
		}
	}
	return out
}

// guarded runs f under the watchdog; ok=false means it did not return in time.
func guarded[T any](f func() T) (res T, ok bool) {
	ch := make(chan T, 1)
	go func() { ch <- f() }()
	select {
	case r := <-ch:
		return r, true
	case <-time.After(watchdog):
		return res, false
	}
}

func obsSx(steps []step) string {
	l := vlib.List{}
	for _, s := range steps {
		if s.Panic {
			l = append(l, vlib.Atom("panic"))
		} else {
			l = append(l, vlib.L(vlib.Atom("ok"), vlib.Int(s.Stack), seqSx(s.Out)))
		}
	}
	return vlib.Str(l)
}

func runes(s []G) []rune {
	var r []rune
	for _, g := range s {
		r = append(r, g.Text...)
	}
	sort.Slice(r, func(i, j int) bool { return r[i] < r[j] })
	return r
}

func sameRunes(a, b []rune) bool {
	if len(a) != len(b) {
		return false
	}
	for i := range a {
		if a[i] != b[i] {
			return false
		}
	}
	return true
}

func sameSeq(a, b []G) bool {
	if len(a) != len(b) {
		return false
	}
	for i := range a {
		if a[i].Gid != b[i].Gid || a[i].X != b[i].X || a[i].Y != b[i].Y || a[i].A != b[i].A || string(a[i].Text) != string(b[i].Text) {
			return false
		}
	}
	return true
}

func sameStep(a, b step) bool {
	if a.Panic != b.Panic {
		return false
	}
	if a.Panic {
		return true
	}
	return a.Stack == b.Stack && sameSeq(a.Out, b.Out)
}

// unimplemented reports whether the lookup list contains positioning data the
// library declares unimplemented (vertical advance, device offsets); a
// "not implemented" panic is then outside the property.
func unimplemented(ll gtab.LookupList) bool {
	bad := func(v *gtab.GposValueRecord) bool {
		return v != nil && (v.YAdvance != 0 || v.XPlacementDevOffs != 0 || v.YPlacementDevOffs != 0 || v.XAdvanceDevOffs != 0 || v.YAdvanceDevOffs != 0)
	}
	for _, l := range ll {
		if l == nil {
			continue
		}
		for _, st := range l.Subtables {
			switch t := st.(type) {
			case *gtab.Gpos1_1:
				if bad(t.Adjust) {
					return true
				}
			case *gtab.Gpos1_2:
				for _, v := range t.Adjust {
					if bad(v) {
						return true
					}
				}
			case gtab.Gpos2_1:
				for _, a := range t {
					if a != nil && (bad(a.First) || bad(a.Second)) {
						return true
					}
				}
			case *gtab.Gpos2_2:
				for _, row := range t.Adjust {
					for _, a := range row {
						if a != nil && (bad(a.First) || bad(a.Second)) {
							return true
						}
					}
				}
			}
		}
	}
	return false
}

// maxRepl is K, the longest Gsub2_1 replacement (at least 1).
func maxRepl(ll gtab.LookupList) int {
	k := 1
	for _, l := range ll {
		if l == nil {
			continue
		}
		for _, st := range l.Subtables {
			if t, ok := st.(*gtab.Gsub2_1); ok {
				for _, r := range t.Repl {
					if len(r) > k {
						k = len(r)
					}
				}
			}
		}
	}
	return k
}

const actionBudget = 64 // only used by the length-bound oracle; the model takes the constant from Gen

// verdict is the outcome of the oracle on one case.
type verdict struct {
	Impl   string // observation compared with the model
	Fail   string
	Sig    string
	Labels []string
	NonTri bool
}

// oracle states C07 directly on the real code: no panic within the watchdog,
// runes conserved, the stack empty after every call, the length bound, the
// result on the reused context equal to the result on a fresh context, and a
// second identical run equal to the first.
func oracle(ll gtab.LookupList, gd *gdef.Table, lookups []gtab.LookupIndex, hist [][]G) (v verdict) {
	steps, ok := guarded(func() []step { return runHistory(ll, gd, lookups, hist) })
	if !ok {
		v.Impl = "hang"
		v.Fail, v.Sig = "Apply did not return within the watchdog", "c07-hang"
		return v
	}
	v.Impl = obsSx(steps)
	fail := func(sig, format string, args ...any) {
		if v.Fail == "" {
			v.Fail, v.Sig = fmt.Sprintf(format, args...), sig
		}
	}
	unimpl := unimplemented(ll)
	k := maxRepl(ll)
	nLookups := 0
	for _, li := range lookups {
		if int(li) < len(ll) {
			nLookups++
		}
	}
	for i, s := range steps {
		if s.Panic {
			v.Labels = append(v.Labels, "out:panic")
			if unimpl && strings.Contains(s.Msg, "not implemented") {
				v.Labels = append(v.Labels, "panic:unimplemented-positioning-data")
			} else {
				fail("c07-panic", "call %d panics: %s", i, s.Msg)
			}
			continue
		}
		in := hist[i]
		if !sameSeq(in, s.Out) {
			v.NonTri = true
		}
		if !sameRunes(runes(in), runes(s.Out)) {
			fail("c07-text-lost", "call %d: runes in %q out %q", i, string(runes(in)), string(runes(s.Out)))
		}
		if s.Stack != 0 {
			fail("c07-stack-left", "call %d leaves %d frames on the stack", i, s.Stack)
		}
		bound := len(in)
		for j := 0; j < nLookups && bound < 1<<40; j++ {
			bound *= 1 + actionBudget*(k-1)
		}
		if len(s.Out) > bound {
			fail("c07-length-bound", "call %d: %d glyphs out, bound %d", i, len(s.Out), bound)
		}
		// fresh context
		fresh, ok := guarded(func() []step { return runHistory(ll, gd, lookups, hist[i:i+1]) })
		if !ok {
			fail("c07-hang", "fresh Apply %d did not return", i)
		} else if !sameStep(fresh[0], s) {
			fail("c07-history-dependent", "call %d on the reused context: %s, on a fresh context: %s", i, obsSx([]step{s}), obsSx(fresh))
		}
	}
	// repeated run
	again, ok := guarded(func() []step { return runHistory(ll, gd, lookups, hist) })
	if !ok {
		fail("c07-hang", "second run did not return")
	} else if obsSx(again) != v.Impl {
		fail("c07-not-repeatable", "second run gives %s", obsSx(again))
	}
	return v
}

// labels describing the tables (distribution in the evidence)
func (c *Case) labels() []string {
	seen := map[string]bool{}
	add := func(s string) { seen[s] = true }
	for _, l := range c.LL {
		for _, s := range l.Subs {
			add("sub:" + s.Kind)
		}
		if l.Flags != 0 {
			add("flags:nonzero")
			if l.Flags&0x10 != 0 {
				add("flags:markfilterset")
			}
			if l.Flags&0xFF00 != 0 {
				add("flags:attachtype")
			}
			if l.Flags&0x0E != 0 {
				add("flags:ignore")
			}
		}
	}
	if c.Gdef == nil {
		add("gdef:nil")
	} else {
		add("gdef:present")
	}
	add(fmt.Sprintf("hist:%d", len(c.Hist)))
	maxLen := 0
	for _, s := range c.Hist {
		if len(s) > maxLen {
			maxLen = len(s)
		}
	}
	switch {
	case maxLen == 0:
		add("seqlen:0")
	case maxLen <= 4:
		add("seqlen:1-4")
	case maxLen <= 16:
		add("seqlen:5-16")
	default:
		add("seqlen:17+")
	}
	out := make([]string, 0, len(seen))
	for k := range seen {
		out = append(out, k)
	}
	sort.Strings(out)
	return out
}

// runStruct evaluates a structured case.
func runStruct(c *Case) verdict {
	ll, gd, lookups := c.Gtab()
	v := oracle(ll, gd, lookups, c.Hist)
	v.Labels = append(v.Labels, c.labels()...)
	return v
}

// ---------------------------------------------------------------- keep cases

func keepLine(flags, mfs int, gd *Gdef, gidList []int) string {
	return vlib.Line(vlib.Atom("keep"), vlib.Int(flags), vlib.Int(mfs), gd.Sx(), ints(gidList))
}

func runKeep(flags, mfs int, gd *Gdef, gidList []int) (impl string) {
	defer func() {
		if e := recover(); e != nil {
			impl = "panic"
		}
	}()
	c := &Case{Gdef: gd}
	_, g, _ := c.Gtab()
	meta := &gtab.LookupMetaInfo{LookupFlags: gtab.LookupFlags(flags), MarkFilteringSet: uint16(mfs)}
	l := vlib.List{}
	for _, x := range gidList {
		l = append(l, vlib.Bool(gtab.VerifC07Keep(meta, g, glyph.ID(x))))
	}
	return vlib.Str(l)
}

// ---------------------------------------------------------------- byte-level cases (oracle only)

// readLine: "!read gsub|gpos xHEX gdef lookups hist"
func readLine(tp string, data []byte, gd *Gdef, lookups []int, hist [][]G) string {
	h := make(vlib.List, len(hist))
	for i, s := range hist {
		h[i] = seqSx(s)
	}
	return vlib.Line(vlib.Atom("!read"), vlib.Atom(tp), vlib.Hex(data), gd.Sx(), ints(lookups), h)
}

func readTables(tp string, data []byte) (info *gtab.Info, err error) {
	defer func() {
		if e := recover(); e != nil {
			err = fmt.Errorf("reader panic: %v", e)
		}
	}()
	t := gtab.Type(gtab.TypeGsub)
	if tp == "gpos" {
		t = gtab.TypeGpos
	}
	return gtab.Read(bytes.NewReader(data), t)
}

// RunCase re-executes one case line.
func RunCase(line string) (impl, fail, sig string, err error) {
	items, err := vlib.Parse(line)
	if err != nil {
		return "", "", "", err
	}
	if len(items) == 0 {
		return "", "", "", errors.New("empty case")
	}
	if a, ok := items[0].(vlib.Atom); ok {
		switch a {
		case "keep":
			if len(items) != 5 {
				return "", "", "", errors.New("keep case: want 5 items")
			}
			var gd *Gdef
			var flags, mfs int
			var gl []int
			func() {
				defer func() {
					if e := recover(); e != nil {
						err = fmt.Errorf("bad keep case: %v", e)
					}
				}()
				flags, mfs, gd, gl = pint(items[1]), pint(items[2]), parseGdef(items[3]), pints(items[4])
			}()
			if err != nil {
				return "", "", "", err
			}
			return runKeep(flags, mfs, gd, gl), "", "", nil
		case "shape":
			if len(items) != 2 {
				return "", "", "", errors.New("shape case: want 2 items")
			}
			c, err := ParseCase([]vlib.Sx{items[1], vlib.Atom("nil"), vlib.List{}, vlib.List{}})
			if err != nil {
				return "", "", "", err
			}
			return shapeImpl(c), "", "", nil
		case "!layout":
			return runLayoutLine(items)
		case "!twin":
			return runTwinLine(items)
		case "!read":
			if len(items) != 6 {
				return "", "", "", errors.New("!read case: want 6 items")
			}
			tp, _ := vlib.AsAtom(items[1])
			data, err := vlib.AsBytes(items[2])
			if err != nil {
				return "", "", "", err
			}
			c, err := ParseCase([]vlib.Sx{vlib.List{}, items[3], items[4], items[5]})
			if err != nil {
				return "", "", "", err
			}
			info, rerr := readTables(tp, data)
			if rerr != nil {
				return "readerr", "", "", nil
			}
			_, gd, lookups := c.Gtab()
			v := oracle(info.LookupList, gd, lookups, c.Hist)
			return v.Impl, v.Fail, v.Sig, nil
		}
	}
	c, err := ParseCase(items)
	if err != nil {
		return "", "", "", err
	}
	v := runStruct(c)
	return v.Impl, v.Fail, v.Sig, nil
}
