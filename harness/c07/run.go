package c07

import (
	"bytes"
	"errors"
	"fmt"
	"sort"
	"strings"
	"time"

	"seehuhn.de/go/sfnt/glyph"
	"seehuhn.de/go/sfnt/opentype/gdef"
	"seehuhn.de/go/sfnt/opentype/gtab"
	"seehuhn.de/go/sfnt/verifharness/vlib"
)

const watchdog = 20 * time.Second

type step struct {
	Panic bool
	Msg   string
	Out   []G
	Stack int
}

// applyOnce runs one Apply call, turning a panic into an observation.
func applyOnce(ctx *gtab.Context, in []G) (st step) {
	defer func() {
		if e := recover(); e != nil {
			st = step{Panic: true, Msg: fmt.Sprint(e)}
		}
	}()
	out := ctx.Apply(toInfo(in))
	return step{Out: fromInfo(out), Stack: ctx.VerifC07StackLen()}
}

// runHistory applies the inputs one after the other on ONE context; the run
// stops at the first panic (the context is then in an unspecified state).
func runHistory(ll gtab.LookupList, gd *gdef.Table, lookups []gtab.LookupIndex, hist [][]G) []step {
	ctx := gtab.NewContext(ll, gd, lookups)
	var out []step
	for _, in := range hist {
		st := applyOnce(ctx, in)
		out = append(out, st)
		if st.Panic {
			break
		}
	}
	return out
}

// guarded runs f under the watchdog; ok=false means it did not return in time.
func guarded[T any](f func() T) (res T, ok bool) {
	ch := make(chan T, 1)
	go func() { ch <- f() }()
	select {
	case r := <-ch:
		return r, true
	case <-time.After(watchdog):
		return res, false
	}
}

func obsSx(steps []step) string {
	l := vlib.List{}
	for _, s := range steps {
		if s.Panic {
			l = append(l, vlib.Atom("panic"))
		} else {
			l = append(l, vlib.L(vlib.Atom("ok"), vlib.Int(s.Stack), seqSx(s.Out)))
		}
	}
	return vlib.Str(l)
}

func runes(s []G) []rune {
	var r []rune
	for _, g := range s {
		r = append(r, g.Text...)
	}
	sort.Slice(r, func(i, j int) bool { return r[i] < r[j] })
	return r
}

func sameRunes(a, b []rune) bool {
	if len(a) != len(b) {
		return false
	}
	for i := range a {
		if a[i] != b[i] {
			return false
		}
	}
	return true
}

func sameSeq(a, b []G) bool {
	if len(a) != len(b) {
		return false
	}
	for i := range a {
		if a[i].Gid != b[i].Gid || a[i].X != b[i].X || a[i].Y != b[i].Y || a[i].A != b[i].A || string(a[i].Text) != string(b[i].Text) {
			return false
		}
	}
	return true
}

func sameStep(a, b step) bool {
	if a.Panic != b.Panic {
		return false
	}
	if a.Panic {
		return true
	}
	return a.Stack == b.Stack && sameSeq(a.Out, b.Out)
}

// unimplemented reports whether the lookup list contains positioning data the
// library declares unimplemented (vertical advance, device offsets); a
// "not implemented" panic is then outside the property.
func unimplemented(ll gtab.LookupList) bool {
	bad := func(v *gtab.GposValueRecord) bool {
		return v != nil && (v.YAdvance != 0 || v.XPlacementDevOffs != 0 || v.YPlacementDevOffs != 0 || v.XAdvanceDevOffs != 0 || v.YAdvanceDevOffs != 0)
	}
	for _, l := range ll {
		if l == nil {
			continue
		}
		for _, st := range l.Subtables {
			switch t := st.(type) {
			case *gtab.Gpos1_1:
				if bad(t.Adjust) {
					return true
				}
			case *gtab.Gpos1_2:
				for _, v := range t.Adjust {
					if bad(v) {
						return true
					}
				}
			case gtab.Gpos2_1:
				for _, a := range t {
					if a != nil && (bad(a.First) || bad(a.Second)) {
						return true
					}
				}
			case *gtab.Gpos2_2:
				for _, row := range t.Adjust {
					for _, a := range row {
						if a != nil && (bad(a.First) || bad(a.Second)) {
							return true
						}
					}
				}
			}
		}
	}
	return false
}

// maxRepl is K, the longest Gsub2_1 replacement (at least 1).
func maxRepl(ll gtab.LookupList) int {
	k := 1
	for _, l := range ll {
		if l == nil {
			continue
		}
		for _, st := range l.Subtables {
			if t, ok := st.(*gtab.Gsub2_1); ok {
				for _, r := range t.Repl {
					if len(r) > k {
						k = len(r)
					}
				}
			}
		}
	}
	return k
}

const actionBudget = 64 // only used by the length-bound oracle; the model takes the constant from Gen

// verdict is the outcome of the oracle on one case.
type verdict struct {
	Impl   string // observation compared with the model
	Fail   string
	Sig    string
	Labels []string
	NonTri bool
}

// tablesFunc delivers brand-new table values (lookup list, GDEF, lookup order)
// on every call: nothing the engine could have attached to the values used by
// an earlier Context is visible to the next one.
type tablesFunc func() (gtab.LookupList, *gdef.Table, []gtab.LookupIndex)

// runFresh runs the calls on a new Context over new table values.
func runFresh(mk tablesFunc, hist [][]G) []step {
	ll, gd, lookups := mk()
	return runHistory(ll, gd, lookups, hist)
}

// runSplit applies the lookups of the lookup order one by one, each on a new
// Context over new tables.
func runSplit(mk tablesFunc, in []G) step {
	_, _, lookups := mk()
	st := step{Out: in}
	for _, li := range lookups {
		ll, gd, _ := mk()
		st = applyOnce(gtab.NewContext(ll, gd, []gtab.LookupIndex{li}), st.Out)
		if st.Panic {
			return st
		}
	}
	return st
}

// oracle states C07 directly on the real code: no panic within the watchdog,
// runes conserved, the stack empty after every call, the length bound, the
// result of EVERY call on the reused context equal (glyph ids, text, offsets,
// advances, stack length) to the result of the same call on a new context
// over newly built tables, the result of every call from the third on
// unchanged when the earlier calls are made in another order, the result of
// a call with several top-level lookups equal to the composition of one new
// Context per lookup, and a second identical run equal to the first.
func oracle(mk tablesFunc, hist [][]G) (v verdict) {
	ll, gd, lookups := mk()
	steps, ok := guarded(func() []step { return runHistory(ll, gd, lookups, hist) })
	if !ok {
		v.Impl = "hang"
		v.Fail, v.Sig = "Apply did not return within the watchdog", "c07-hang"
		return v
	}
	v.Impl = obsSx(steps)
	fail := func(sig, format string, args ...any) {
		if v.Fail == "" {
			v.Fail, v.Sig = fmt.Sprintf(format, args...), sig
		}
	}
	unimpl := unimplemented(ll)
	k := maxRepl(ll)
	nLookups := 0
	for _, li := range lookups {
		if int(li) < len(ll) {
			nLookups++
		}
	}
	for i, s := range steps {
		if s.Panic {
			v.Labels = append(v.Labels, "out:panic")
			if unimpl && strings.Contains(s.Msg, "not implemented") {
				v.Labels = append(v.Labels, "panic:unimplemented-positioning-data")
			} else {
				fail("c07-panic", "call %d panics: %s", i, s.Msg)
			}
			continue
		}
		in := hist[i]
		if !sameSeq(in, s.Out) {
			v.NonTri = true
		}
		if !sameRunes(runes(in), runes(s.Out)) {
			fail("c07-text-lost", "call %d: runes in %q out %q", i, string(runes(in)), string(runes(s.Out)))
		}
		if s.Stack != 0 {
			fail("c07-stack-left", "call %d leaves %d frames on the stack", i, s.Stack)
		}
		bound := len(in)
		for j := 0; j < nLookups && bound < 1<<40; j++ {
			bound *= 1 + actionBudget*(k-1)
		}
		if len(s.Out) > bound {
			fail("c07-length-bound", "call %d: %d glyphs out, bound %d", i, len(s.Out), bound)
		}
		// fresh context
		fresh, ok := guarded(func() []step { return runFresh(mk, hist[i:i+1]) })
		if !ok {
			fail("c07-hang", "fresh Apply %d did not return", i)
		} else if !sameStep(fresh[0], s) {
			fail("c07-history-dependent", "call %d on the reused context: %s, on a fresh context: %s", i, obsSx([]step{s}), obsSx(fresh))
		}
		// the top-level lookups are applied one after the other: a Context
		// per lookup (new tables each), fed with the previous result, must
		// give what the one Context with the whole lookup order gives
		if len(lookups) >= 2 {
			split, ok := guarded(func() step { return runSplit(mk, hist[i]) })
			if !ok {
				fail("c07-hang", "lookup-by-lookup Apply %d did not return", i)
			} else if !sameStep(split, s) {
				fail("c07-lookup-split", "call %d: one Context with lookups %v gives %s, one new Context per lookup gives %s", i, lookups, obsSx([]step{s}), obsSx([]step{split}))
			}
		}
		// order independence: the earlier calls in another order (reversed;
		// for three and more also rotated) must not change this call
		if i >= 2 {
			for _, perm := range earlierOrders(i) {
				h2 := make([][]G, 0, i+1)
				for _, j := range perm {
					h2 = append(h2, hist[j])
				}
				h2 = append(h2, hist[i])
				other, ok := guarded(func() []step { return runFresh(mk, h2) })
				if !ok {
					fail("c07-hang", "permuted history before call %d did not return", i)
				} else if len(other) != i+1 || !sameStep(other[i], s) {
					fail("c07-order-dependent", "call %d after the earlier calls in order %v gives %s, in the original order %s", i, perm, obsSx(other[len(other)-1:]), obsSx([]step{s}))
				}
			}
		}
	}
	// repeated run
	again, ok := guarded(func() []step { return runFresh(mk, hist) })
	if !ok {
		fail("c07-hang", "second run did not return")
	} else if obsSx(again) != v.Impl {
		fail("c07-not-repeatable", "second run gives %s", obsSx(again))
	}
	return v
}

// earlierOrders returns the orders in which the i calls before call i are
// replayed by the order-independence clause: reversed and (i >= 3) rotated.
func earlierOrders(i int) [][]int {
	rev := make([]int, i)
	for j := range rev {
		rev[j] = i - 1 - j
	}
	out := [][]int{rev}
	if i >= 3 {
		rot := make([]int, i)
		for j := range rot {
			rot[j] = (j + 1) % i
		}
		out = append(out, rot)
	}
	return out
}

// labels describing the tables (distribution in the evidence)
func (c *Case) labels() []string {
	seen := map[string]bool{}
	add := func(s string) { seen[s] = true }
	for _, l := range c.LL {
		for _, s := range l.Subs {
			add("sub:" + s.Kind)
		}
		if l.Flags != 0 {
			add("flags:nonzero")
			if l.Flags&0x10 != 0 {
				add("flags:markfilterset")
			}
			if l.Flags&0xFF00 != 0 {
				add("flags:attachtype")
			}
			if l.Flags&0x0E != 0 {
				add("flags:ignore")
			}
		}
	}
	if c.Gdef == nil {
		add("gdef:nil")
	} else {
		add("gdef:present")
	}
	add(fmt.Sprintf("hist:%d", len(c.Hist)))
	maxLen := 0
	for _, s := range c.Hist {
		if len(s) > maxLen {
			maxLen = len(s)
		}
	}
	switch {
	case maxLen == 0:
		add("seqlen:0")
	case maxLen <= 4:
		add("seqlen:1-4")
	case maxLen <= 16:
		add("seqlen:5-16")
	default:
		add("seqlen:17+")
	}
	out := make([]string, 0, len(seen))
	for k := range seen {
		out = append(out, k)
	}
	sort.Strings(out)
	return out
}

// runStruct evaluates a structured case.
func runStruct(c *Case) verdict {
	v := oracle(c.Gtab, c.Hist)
	v.Labels = append(v.Labels, c.labels()...)
	return v
}

// ---------------------------------------------------------------- keep cases

func keepLine(flags, mfs int, gd *Gdef, gidList []int) string {
	return vlib.Line(vlib.Atom("keep"), vlib.Int(flags), vlib.Int(mfs), gd.Sx(), ints(gidList))
}

func runKeep(flags, mfs int, gd *Gdef, gidList []int) (impl string) {
	defer func() {
		if e := recover(); e != nil {
			impl = "panic"
		}
	}()
	c := &Case{Gdef: gd}
	_, g, _ := c.Gtab()
	meta := &gtab.LookupMetaInfo{LookupFlags: gtab.LookupFlags(flags), MarkFilteringSet: uint16(mfs)}
	l := vlib.List{}
	for _, x := range gidList {
		l = append(l, vlib.Bool(gtab.VerifC07Keep(meta, g, glyph.ID(x))))
	}
	return vlib.Str(l)
}

// ---------------------------------------------------------------- byte-level cases (oracle only)

// readLine: "!read gsub|gpos xHEX gdef lookups hist"
func readLine(tp string, data []byte, gd *Gdef, lookups []int, hist [][]G) string {
	h := make(vlib.List, len(hist))
	for i, s := range hist {
		h[i] = seqSx(s)
	}
	return vlib.Line(vlib.Atom("!read"), vlib.Atom(tp), vlib.Hex(data), gd.Sx(), ints(lookups), h)
}

func readTables(tp string, data []byte) (info *gtab.Info, err error) {
	defer func() {
		if e := recover(); e != nil {
			err = fmt.Errorf("reader panic: %v", e)
		}
	}()
	t := gtab.Type(gtab.TypeGsub)
	if tp == "gpos" {
		t = gtab.TypeGpos
	}
	return gtab.Read(bytes.NewReader(data), t)
}

// readTablesFunc: the lookup list is read again from the bytes for every new
// context (the caller has checked that the bytes are accepted).
func readTablesFunc(tp string, data []byte, c *Case) tablesFunc {
	return func() (gtab.LookupList, *gdef.Table, []gtab.LookupIndex) {
		_, gd, lookups := c.Gtab()
		info, err := readTables(tp, data)
		if err != nil || info == nil {
			return nil, gd, lookups
		}
		return info.LookupList, gd, lookups
	}
}

// RunCase re-executes one case line.
func RunCase(line string) (impl, fail, sig string, err error) {
	items, err := vlib.Parse(line)
	if err != nil {
		return "", "", "", err
	}
	if len(items) == 0 {
		return "", "", "", errors.New("empty case")
	}
	if a, ok := items[0].(vlib.Atom); ok {
		switch a {
		case "keep":
			if len(items) != 5 {
				return "", "", "", errors.New("keep case: want 5 items")
			}
			var gd *Gdef
			var flags, mfs int
			var gl []int
			func() {
				defer func() {
					if e := recover(); e != nil {
						err = fmt.Errorf("bad keep case: %v", e)
					}
				}()
				flags, mfs, gd, gl = pint(items[1]), pint(items[2]), parseGdef(items[3]), pints(items[4])
			}()
			if err != nil {
				return "", "", "", err
			}
			return runKeep(flags, mfs, gd, gl), "", "", nil
		case "shape":
			if len(items) != 2 {
				return "", "", "", errors.New("shape case: want 2 items")
			}
			c, err := ParseCase([]vlib.Sx{items[1], vlib.Atom("nil"), vlib.List{}, vlib.List{}})
			if err != nil {
				return "", "", "", err
			}
			return shapeImpl(c), "", "", nil
		case "!layout":
			return runLayoutLine(items)
		case "!layout2":
			return runLayoutLine2(items)
		case "!twin":
			return runTwinLine(items)
		case "!read":
			if len(items) != 6 {
				return "", "", "", errors.New("!read case: want 6 items")
			}
			tp, _ := vlib.AsAtom(items[1])
			data, err := vlib.AsBytes(items[2])
			if err != nil {
				return "", "", "", err
			}
			c, err := ParseCase([]vlib.Sx{vlib.List{}, items[3], items[4], items[5]})
			if err != nil {
				return "", "", "", err
			}
			info, rerr := readTables(tp, data)
			if rerr != nil {
				return "readerr", "", "", nil
			}
			_ = info
			v := oracle(readTablesFunc(tp, data, c), c.Hist)
			return v.Impl, v.Fail, v.Sig, nil
		}
	}
	c, err := ParseCase(items)
	if err != nil {
		return "", "", "", err
	}
	v := runStruct(c)
	return v.Impl, v.Fail, v.Sig, nil
}
