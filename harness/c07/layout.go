package c07

import (
	"errors"
	"fmt"
	"sync"

	"golang.org/x/text/language"
	"seehuhn.de/go/sfnt"
	"seehuhn.de/go/sfnt/internal/debug"
	"seehuhn.de/go/sfnt/opentype/gtab"
	"seehuhn.de/go/sfnt/verifharness/vlib"
)

// Layouter histories (oracle only): sfnt.Layouter reuses its glyph buffer and
// its two gtab.Contexts across Layout calls.  The model does not cover the
// Layouter; the oracle states C07 on it directly: no panic, every rune of the
// input string appears exactly once in the Text fields of the output, and
// the result of the i-th call on the reused Layouter equals the result of the
// same call on a new Layouter, and does not change when the earlier calls are
// made in another order.
//
// line: !layout gsub-ll gpos-ll gdef ( (rune ...) ... )

const layoutFirstGid = 4 // debug.MakeSimpleFont: 'A' is glyph 4, 'Z' is glyph 29

func layoutAlphabet() []int { return []int{4, 5, 6, 7, 8, 9, 10, 11, 12} }

func layoutGdef(r *vlib.Rand) *Gdef {
	if r.Chance(1, 5) {
		return nil
	}
	g := &Gdef{HasClass: true}
	for _, b := range []int{4, 5, 6, 7} {
		g.Class = append(g.Class, KV{b, 1})
	}
	for _, m := range []int{10, 11, 12} {
		g.Class = append(g.Class, KV{m, 3})
	}
	g.Class = append(g.Class, KV{9, 2})
	g.Attach = []KV{{10, 1}, {11, 2}, {12, 1}}
	g.Sets = [][]int{{10}, {11, 12}}
	return g
}

func mkInfo(lls []*Lookup) *gtab.Info {
	if lls == nil {
		return nil
	}
	c := &Case{LL: lls}
	ll, _, _ := c.Gtab()
	all := make([]gtab.LookupIndex, len(ll))
	for i := range all {
		all[i] = gtab.LookupIndex(i)
	}
	return &gtab.Info{
		ScriptList:  gtab.ScriptListInfo{language.MustParse("und-Latn"): {Required: 0, Optional: nil}},
		FeatureList: gtab.FeatureListInfo{{Tag: "test", Lookups: all}},
		LookupList:  ll,
	}
}

// simpleFont returns a new Font value over the outlines and the cmap of
// debug.MakeSimpleFont (built once; they are read-only for the Layouter).  The
// GSUB, GPOS and GDEF tables are set by the caller, newly built for every font.
var baseFont = sync.OnceValue(debug.MakeSimpleFont)

func simpleFont() *sfnt.Font {
	f := *baseFont()
	f.Gsub, f.Gpos, f.Gdef = nil, nil, nil
	return &f
}

func newLayouter(gsub, gpos []*Lookup, gd *Gdef) (*sfnt.Layouter, error) {
	font := simpleFont()
	font.Gsub = mkInfo(gsub)
	font.Gpos = mkInfo(gpos)
	c := &Case{Gdef: gd}
	_, g, _ := c.Gtab()
	font.Gdef = g
	return font.NewLayouter(language.MustParse("und-Latn"), map[string]bool{"test": true}, map[string]bool{"test": true})
}

func layoutOnce(l *sfnt.Layouter, s string) (st step) {
	defer func() {
		if e := recover(); e != nil {
			st = step{Panic: true, Msg: fmt.Sprint(e)}
		}
	}()
	return step{Out: fromInfo(l.Layout(s))}
}

// makeLayouter calls mk, turning a panic into an error-free observation.
func makeLayouter(mk func() (*sfnt.Layouter, error)) (l *sfnt.Layouter, err error, panicked string) {
	defer func() {
		if e := recover(); e != nil {
			l, err, panicked = nil, nil, fmt.Sprint(e)
		}
	}()
	l, err = mk()
	return l, err, ""
}

// layoutHistoryWith makes ONE Layouter and calls Layout for every string.
func layoutHistoryWith(mk func() (*sfnt.Layouter, error), strs []string) ([]step, error) {
	l, err, panicked := makeLayouter(mk)
	if panicked != "" {
		return []step{{Panic: true, Msg: "NewLayouter: " + panicked}}, nil
	}
	if err != nil {
		return nil, err
	}
	var out []step
	for _, s := range strs {
		st := layoutOnce(l, s)
		out = append(out, st)
		if st.Panic {
			break
		}
	}
	return out, nil
}

func layoutOracle(gsub, gpos []*Lookup, gd *Gdef, strs []string) (v verdict) {
	return layoutOracleWith(func() (*sfnt.Layouter, error) { return newLayouter(gsub, gpos, gd) }, strs, false)
}

// layoutOracleWith: mk builds a new font (new tables) and a new Layouter on
// every call.  wantErr: NewLayouter has to fail (font without cmap).
func layoutOracleWith(mk func() (*sfnt.Layouter, error), strs []string, wantErr bool) (v verdict) {
	type res struct {
		steps []step
		err   error
	}
	r, ok := guarded(func() res { s, e := layoutHistoryWith(mk, strs); return res{s, e} })
	if !ok {
		return verdict{Impl: "hang", Fail: "Layout did not return within the watchdog", Sig: "c07-layout-hang"}
	}
	if r.err != nil {
		if !wantErr {
			return verdict{Impl: "nolayouter", Fail: "NewLayouter fails on a font with a cmap: " + r.err.Error(), Sig: "c07-layout-newlayouter"}
		}
		return verdict{Impl: "nolayouter"}
	}
	v.Impl = obsSx(r.steps)
	fail := func(sig, format string, args ...any) {
		if v.Fail == "" {
			v.Fail, v.Sig = fmt.Sprintf(format, args...), sig
		}
	}
	if wantErr {
		fail("c07-layout-newlayouter", "NewLayouter succeeds on a font without cmap")
	}
	for i, s := range r.steps {
		if s.Panic {
			fail("c07-layout-panic", "Layout call %d panics: %s", i, s.Msg)
			continue
		}
		var in []G
		for _, ru := range strs[i] {
			in = append(in, G{Text: []rune{ru}})
		}
		if len(s.Out) != len(in) {
			v.NonTri = true
		}
		if !sameRunes(runes(in), runes(s.Out)) {
			fail("c07-layout-text-lost", "Layout call %d: runes in %q out %q", i, string(runes(in)), string(runes(s.Out)))
		}
		fresh, ok := guarded(func() res { s, e := layoutHistoryWith(mk, strs[i:i+1]); return res{s, e} })
		if !ok || fresh.err != nil {
			fail("c07-layout-hang", "fresh Layout %d did not return", i)
		} else if !sameStep(fresh.steps[0], s) {
			fail("c07-layout-history-dependent", "Layout call %d on the reused Layouter: %s, on a new Layouter: %s", i, obsSx([]step{s}), obsSx(fresh.steps))
		}
		if i >= 2 {
			for _, perm := range earlierOrders(i) {
				h2 := make([]string, 0, i+1)
				for _, j := range perm {
					h2 = append(h2, strs[j])
				}
				h2 = append(h2, strs[i])
				other, ok := guarded(func() res { s, e := layoutHistoryWith(mk, h2); return res{s, e} })
				if !ok || other.err != nil {
					fail("c07-layout-hang", "permuted history before Layout call %d did not return", i)
				} else if len(other.steps) != i+1 || !sameStep(other.steps[i], s) {
					fail("c07-layout-order-dependent", "Layout call %d after the earlier calls in order %v gives %s, in the original order %s", i, perm, obsSx(other.steps[len(other.steps)-1:]), obsSx([]step{s}))
				}
			}
		}
	}
	return v
}

func llSx(lls []*Lookup) vlib.Sx {
	if lls == nil {
		return vlib.Atom("nil")
	}
	c := &Case{LL: lls}
	items, _ := vlib.Parse(c.Line())
	return items[0]
}

func layoutLine(gsub, gpos []*Lookup, gd *Gdef, strs []string) string {
	h := make(vlib.List, len(strs))
	for i, s := range strs {
		l := vlib.List{}
		for _, r := range s {
			l = append(l, vlib.Int(int(r)))
		}
		h[i] = l
	}
	return vlib.Line(vlib.Atom("!layout"), llSx(gsub), llSx(gpos), gd.Sx(), h)
}

func parseLL(x vlib.Sx) ([]*Lookup, error) {
	if a, ok := x.(vlib.Atom); ok && a == "nil" {
		return nil, nil
	}
	c, err := ParseCase([]vlib.Sx{x, vlib.Atom("nil"), vlib.List{}, vlib.List{}})
	if err != nil {
		return nil, err
	}
	if c.LL == nil {
		c.LL = []*Lookup{}
	}
	return c.LL, nil
}

func runLayoutLine(items []vlib.Sx) (impl, fail, sig string, err error) {
	if len(items) != 5 {
		return "", "", "", errors.New("!layout case: want 5 items")
	}
	gsub, err := parseLL(items[1])
	if err != nil {
		return "", "", "", err
	}
	gpos, err := parseLL(items[2])
	if err != nil {
		return "", "", "", err
	}
	c, err := ParseCase([]vlib.Sx{vlib.List{}, items[3], vlib.List{}, vlib.List{}})
	if err != nil {
		return "", "", "", err
	}
	hl, err := vlib.AsList(items[4])
	if err != nil {
		return "", "", "", err
	}
	var strs []string
	for _, x := range hl {
		rs, err := vlib.AsInts(x)
		if err != nil {
			return "", "", "", err
		}
		s := ""
		for _, r := range rs {
			s += string(rune(r))
		}
		strs = append(strs, s)
	}
	v := layoutOracle(gsub, gpos, c.Gdef, strs)
	return v.Impl, v.Fail, v.Sig, nil
}

func genLayout(run *vlib.Run, r *vlib.Rand, tier string) {
	n := vlib.Count(tier, 400, 4000)
	for i := 0; i < n; i++ {
		gd := layoutGdef(r)
		mk := func(kinds []string) []*Lookup {
			t := &tgen{r: r, alpha: layoutAlphabet(), wild: r.Chance(1, 3)}
			t.nLk = r.Range(1, 4)
			var ll []*Lookup
			for j := 0; j < t.nLk; j++ {
				l := t.lookup(kinds, 2)
				for _, s := range l.Subs {
					if s.Kind == "g11" {
						s.Delta = r.Range(0, 3) // stay inside the font's glyph range
					}
				}
				ll = append(ll, l)
			}
			return ll
		}
		var gsub, gpos []*Lookup
		if r.Chance(4, 5) {
			gsub = mk(gsubKinds)
		}
		if r.Chance(1, 2) {
			gpos = mk(gposKinds)
		}
		var strs []string
		for k := r.Range(2, 5); k > 0; k-- {
			s := ""
			for m := r.Range(0, 12); m > 0; m-- {
				s += string(rune('A' + r.Intn(9)))
			}
			strs = append(strs, s)
		}
		v := layoutOracle(gsub, gpos, gd, strs)
		line := layoutLine(gsub, gpos, gd, strs)
		idx := run.Add(line, v.Impl, v.NonTri, "stream:layouter", "oracle-only")
		if v.Fail != "" {
			c := &Case{LL: append(append([]*Lookup{}, gsub...), gpos...)}
			ll, _, _ := c.Gtab()
			if (!readerShape(c) || unimplemented(ll)) && v.Sig == "c07-layout-panic" {
				continue
			}
			run.Fail(idx, line, v.Fail, v.Sig)
		}
	}
}
