// Package c07 drives gtab.Context.Apply with generated lookup lists, GDEF
// tables, glyph sequences and call histories, and records the observations in
// the syntax the Coq model M_shape (coq/C07/Model.v) prints.
//
// Case grammar (one line, four top-level items):
//
//	case    = ll gdef lookups hist
//	ll      = ( (flags mfs (sub ...)) ... )
//	gdef    = nil | ( glyphclass attach (set ...) )      glyphclass = nil | cls
//	lookups = ( idx ... )
//	hist    = ( seq ... )        seq = ( (gid (rune ...) xoff yoff adv) ... )
//	cov     = ( (gid idx) ... )  set = ( gid ... )  cls = ( (gid class) ... )
//	acts    = ( (seqidx lookupidx) ... )
//	vr      = nil | (xpl ypl xadv yadv d1 d2 d3 d4)
//	sub     = (g11 set delta) | (g12 cov (gid ...)) | (g21 cov ((gid ...) ...)) | (g31 cov ((gid ...) ...))
//	        | (g41 cov ( (((gid ...) out) ...) ... )) | (g81 cov (cov ...) (cov ...) (gid ...))
//	        | (sc1 cov (( ((gid ...) acts) ...) ...)) | (sc2 cov cls (( ((class ...) acts) ...) ...)) | (sc3 (set ...) acts)
//	        | (cc1 cov (( (back in look acts) ...) ...)) | (cc2 cov cls cls cls (...)) | (cc3 (set ...) (set ...) (set ...) acts)
//	        | (p11 set vr) | (p12 cov (vr ...)) | (p21 ((left right vr vr) ...)) | (p22 set cls cls (((vr vr) ...) ...))
//	        | (p31 cov ((entryx entryy exitx exity) ...)) | (p41 cov cov ((class x y) ...) (((x y) ...) ...)) | p51 | (p61 ...)
//
// Oracle-only lines start with "!": !read (run.go), !twin (deep.go), !layout
// (layout.go), !layout2 (layout2.go).  The stream of nested lookups that share
// a part of their meta data (histories in both orders) is in hist.go.
package c07

import (
	"errors"
	"fmt"
	"sort"

	"seehuhn.de/go/postscript/funit"
	"seehuhn.de/go/sfnt/glyph"
	"seehuhn.de/go/sfnt/opentype/anchor"
	"seehuhn.de/go/sfnt/opentype/classdef"
	"seehuhn.de/go/sfnt/opentype/coverage"
	"seehuhn.de/go/sfnt/opentype/gdef"
	"seehuhn.de/go/sfnt/opentype/gtab"
	"seehuhn.de/go/sfnt/opentype/markarray"
	"seehuhn.de/go/sfnt/verifharness/vlib"
)

type KV struct{ K, V int }
type Act struct{ Seq, Lk int }
type VR [8]int // xpl ypl xadv yadv d1..d4
type Rule struct {
	Back, In, Look []int
	Acts           []Act
}
type Lig struct {
	In  []int
	Out int
}
type PairEnt struct {
	L, R   int
	V1, V2 *VR
}
type PairAdj struct{ V1, V2 *VR }
type MarkRec struct{ Class, X, Y int }

// Sub is one subtable; which fields are used depends on Kind.
type Sub struct {
	Kind                string
	Set                 []int       // g11 p11 p22
	Cov, Cov2           []KV        // coverage tables (Cov2: base/mark2 coverage)
	Delta               int         // g11
	Gids                []int       // g12 g81 substitutes
	Lists               [][]int     // g21 g31
	Ligs                [][]Lig     // g41
	CovsB, CovsL        [][]KV      // g81
	Rules               [][]Rule    // sc1 sc2 cc1 cc2
	Cls, Cls2, Cls3     []KV        // sc2: Cls; cc2: back, input, look; p22: Cls, Cls2
	SetsB, SetsI, SetsL [][]int     // sc3 (SetsI) cc3
	Acts                []Act       // sc3 cc3
	V                   *VR         // p11
	Vs                  []*VR       // p12
	Pairs               []PairEnt   // p21
	Adj                 [][]PairAdj // p22
	EE                  [][4]int    // p31
	Marks               []MarkRec   // p41 p61
	Bases               [][][2]int  // p41 p61
}

type Lookup struct {
	Flags, MFS int
	Subs       []*Sub
}

type Gdef struct {
	HasClass bool
	Class    []KV
	Attach   []KV
	Sets     [][]int
}

type G struct {
	Gid     int
	Text    []rune
	X, Y, A int
}

type Case struct {
	LL      []*Lookup
	Gdef    *Gdef
	Lookups []int
	Hist    [][]G
}

// ---------------------------------------------------------------- printing

func ints(xs []int) vlib.Sx {
	l := make(vlib.List, len(xs))
	for i, x := range xs {
		l[i] = vlib.Int(x)
	}
	return l
}
func kvs(xs []KV) vlib.Sx {
	l := make(vlib.List, len(xs))
	for i, x := range xs {
		l[i] = vlib.L(vlib.Int(x.K), vlib.Int(x.V))
	}
	return l
}
func intss(xs [][]int) vlib.Sx {
	l := make(vlib.List, len(xs))
	for i, x := range xs {
		l[i] = ints(x)
	}
	return l
}
func kvss(xs [][]KV) vlib.Sx {
	l := make(vlib.List, len(xs))
	for i, x := range xs {
		l[i] = kvs(x)
	}
	return l
}
func acts(xs []Act) vlib.Sx {
	l := make(vlib.List, len(xs))
	for i, x := range xs {
		l[i] = vlib.L(vlib.Int(x.Seq), vlib.Int(x.Lk))
	}
	return l
}
func vr(v *VR) vlib.Sx {
	if v == nil {
		return vlib.Atom("nil")
	}
	return ints(v[:])
}
func seqRules(rs [][]Rule) vlib.Sx {
	l := make(vlib.List, len(rs))
	for i, set := range rs {
		m := make(vlib.List, len(set))
		for j, r := range set {
			m[j] = vlib.L(ints(r.In), acts(r.Acts))
		}
		l[i] = m
	}
	return l
}
func chainRules(rs [][]Rule) vlib.Sx {
	l := make(vlib.List, len(rs))
	for i, set := range rs {
		m := make(vlib.List, len(set))
		for j, r := range set {
			m[j] = vlib.L(ints(r.Back), ints(r.In), ints(r.Look), acts(r.Acts))
		}
		l[i] = m
	}
	return l
}
func markSx(s *Sub) (vlib.Sx, vlib.Sx) {
	m := make(vlib.List, len(s.Marks))
	for i, r := range s.Marks {
		m[i] = vlib.L(vlib.Int(r.Class), vlib.Int(r.X), vlib.Int(r.Y))
	}
	b := make(vlib.List, len(s.Bases))
	for i, row := range s.Bases {
		rr := make(vlib.List, len(row))
		for j, a := range row {
			rr[j] = vlib.L(vlib.Int(a[0]), vlib.Int(a[1]))
		}
		b[i] = rr
	}
	return m, b
}

func (s *Sub) Sx() vlib.Sx {
	k := vlib.Atom(s.Kind)
	switch s.Kind {
	case "g11":
		return vlib.L(k, ints(s.Set), vlib.Int(s.Delta))
	case "g12":
		return vlib.L(k, kvs(s.Cov), ints(s.Gids))
	case "g21", "g31":
		return vlib.L(k, kvs(s.Cov), intss(s.Lists))
	case "g41":
		l := make(vlib.List, len(s.Ligs))
		for i, set := range s.Ligs {
			m := make(vlib.List, len(set))
			for j, lg := range set {
				m[j] = vlib.L(ints(lg.In), vlib.Int(lg.Out))
			}
			l[i] = m
		}
		return vlib.L(k, kvs(s.Cov), l)
	case "g81":
		return vlib.L(k, kvs(s.Cov), kvss(s.CovsB), kvss(s.CovsL), ints(s.Gids))
	case "sc1":
		return vlib.L(k, kvs(s.Cov), seqRules(s.Rules))
	case "sc2":
		return vlib.L(k, kvs(s.Cov), kvs(s.Cls), seqRules(s.Rules))
	case "sc3":
		return vlib.L(k, intss(s.SetsI), acts(s.Acts))
	case "cc1":
		return vlib.L(k, kvs(s.Cov), chainRules(s.Rules))
	case "cc2":
		return vlib.L(k, kvs(s.Cov), kvs(s.Cls), kvs(s.Cls2), kvs(s.Cls3), chainRules(s.Rules))
	case "cc3":
		return vlib.L(k, intss(s.SetsB), intss(s.SetsI), intss(s.SetsL), acts(s.Acts))
	case "p11":
		return vlib.L(k, ints(s.Set), vr(s.V))
	case "p12":
		l := make(vlib.List, len(s.Vs))
		for i, v := range s.Vs {
			l[i] = vr(v)
		}
		return vlib.L(k, kvs(s.Cov), l)
	case "p21":
		l := make(vlib.List, len(s.Pairs))
		for i, p := range s.Pairs {
			l[i] = vlib.L(vlib.Int(p.L), vlib.Int(p.R), vr(p.V1), vr(p.V2))
		}
		return vlib.L(k, l)
	case "p22":
		l := make(vlib.List, len(s.Adj))
		for i, row := range s.Adj {
			m := make(vlib.List, len(row))
			for j, a := range row {
				m[j] = vlib.L(vr(a.V1), vr(a.V2))
			}
			l[i] = m
		}
		return vlib.L(k, ints(s.Set), kvs(s.Cls), kvs(s.Cls2), l)
	case "p31":
		l := make(vlib.List, len(s.EE))
		for i, e := range s.EE {
			l[i] = ints(e[:])
		}
		return vlib.L(k, kvs(s.Cov), l)
	case "p41", "p61":
		m, b := markSx(s)
		return vlib.L(k, kvs(s.Cov), kvs(s.Cov2), m, b)
	case "p51":
		return k
	}
	panic("unknown subtable kind " + s.Kind)
}

func (g *Gdef) Sx() vlib.Sx {
	if g == nil {
		return vlib.Atom("nil")
	}
	var c vlib.Sx = vlib.Atom("nil")
	if g.HasClass {
		c = kvs(g.Class)
	}
	return vlib.L(c, kvs(g.Attach), intss(g.Sets))
}

func seqSx(s []G) vlib.Sx {
	l := make(vlib.List, len(s))
	for i, g := range s {
		t := make(vlib.List, len(g.Text))
		for j, r := range g.Text {
			t[j] = vlib.Int(int(r))
		}
		l[i] = vlib.L(vlib.Int(g.Gid), t, vlib.Int(g.X), vlib.Int(g.Y), vlib.Int(g.A))
	}
	return l
}

func (c *Case) Line() string {
	ll := make(vlib.List, len(c.LL))
	for i, l := range c.LL {
		ss := make(vlib.List, len(l.Subs))
		for j, s := range l.Subs {
			ss[j] = s.Sx()
		}
		ll[i] = vlib.L(vlib.Int(l.Flags), vlib.Int(l.MFS), ss)
	}
	h := make(vlib.List, len(c.Hist))
	for i, s := range c.Hist {
		h[i] = seqSx(s)
	}
	return vlib.Line(ll, c.Gdef.Sx(), ints(c.Lookups), h)
}

// ---------------------------------------------------------------- parsing

type perr struct{ err error }

func must[T any](v T, err error) T {
	if err != nil {
		panic(perr{err})
	}
	return v
}
func plist(x vlib.Sx) []vlib.Sx { return must(vlib.AsList(x)) }
func pint(x vlib.Sx) int        { return must(vlib.AsInt(x)) }
func pints(x vlib.Sx) []int {
	l := plist(x)
	out := make([]int, len(l))
	for i, y := range l {
		out[i] = pint(y)
	}
	return out
}
func pintss(x vlib.Sx) [][]int {
	l := plist(x)
	out := make([][]int, len(l))
	for i, y := range l {
		out[i] = pints(y)
	}
	return out
}
func pkvs(x vlib.Sx) []KV {
	l := plist(x)
	out := make([]KV, len(l))
	for i, y := range l {
		p := pints(y)
		if len(p) != 2 {
			panic(perr{errors.New("pair expected")})
		}
		out[i] = KV{p[0], p[1]}
	}
	return out
}
func pkvss(x vlib.Sx) [][]KV {
	l := plist(x)
	out := make([][]KV, len(l))
	for i, y := range l {
		out[i] = pkvs(y)
	}
	return out
}
func pacts(x vlib.Sx) []Act {
	kv := pkvs(x)
	out := make([]Act, len(kv))
	for i, p := range kv {
		out[i] = Act{p.K, p.V}
	}
	return out
}
func pvr(x vlib.Sx) *VR {
	if a, ok := x.(vlib.Atom); ok && a == "nil" {
		return nil
	}
	p := pints(x)
	if len(p) != 8 {
		panic(perr{errors.New("value record: 8 fields expected")})
	}
	var v VR
	copy(v[:], p)
	return &v
}
func pseqRules(x vlib.Sx, chain bool) [][]Rule {
	l := plist(x)
	out := make([][]Rule, len(l))
	for i, y := range l {
		rs := plist(y)
		out[i] = make([]Rule, len(rs))
		for j, r := range rs {
			f := plist(r)
			if chain {
				if len(f) != 4 {
					panic(perr{errors.New("chain rule: 4 fields expected")})
				}
				out[i][j] = Rule{Back: pints(f[0]), In: pints(f[1]), Look: pints(f[2]), Acts: pacts(f[3])}
			} else {
				if len(f) != 2 {
					panic(perr{errors.New("rule: 2 fields expected")})
				}
				out[i][j] = Rule{In: pints(f[0]), Acts: pacts(f[1])}
			}
		}
	}
	return out
}

func need(f []vlib.Sx, n int) {
	if len(f) != n {
		panic(perr{fmt.Errorf("subtable %s: %d fields expected", vlib.Str(f[0]), n)})
	}
}

func parseSub(x vlib.Sx) *Sub {
	if a, ok := x.(vlib.Atom); ok {
		if a == "p51" {
			return &Sub{Kind: "p51"}
		}
		panic(perr{errors.New("bad subtable atom")})
	}
	f := plist(x)
	if len(f) == 0 {
		panic(perr{errors.New("empty subtable")})
	}
	s := &Sub{Kind: must(vlib.AsAtom(f[0]))}
	switch s.Kind {
	case "g11":
		need(f, 3)
		s.Set, s.Delta = pints(f[1]), pint(f[2])
	case "g12":
		need(f, 3)
		s.Cov, s.Gids = pkvs(f[1]), pints(f[2])
	case "g21", "g31":
		need(f, 3)
		s.Cov, s.Lists = pkvs(f[1]), pintss(f[2])
	case "g41":
		need(f, 3)
		s.Cov = pkvs(f[1])
		for _, set := range plist(f[2]) {
			var ls []Lig
			for _, lg := range plist(set) {
				p := plist(lg)
				ls = append(ls, Lig{In: pints(p[0]), Out: pint(p[1])})
			}
			s.Ligs = append(s.Ligs, ls)
		}
	case "g81":
		need(f, 5)
		s.Cov, s.CovsB, s.CovsL, s.Gids = pkvs(f[1]), pkvss(f[2]), pkvss(f[3]), pints(f[4])
	case "sc1":
		need(f, 3)
		s.Cov, s.Rules = pkvs(f[1]), pseqRules(f[2], false)
	case "sc2":
		need(f, 4)
		s.Cov, s.Cls, s.Rules = pkvs(f[1]), pkvs(f[2]), pseqRules(f[3], false)
	case "sc3":
		need(f, 3)
		s.SetsI, s.Acts = pintss(f[1]), pacts(f[2])
	case "cc1":
		need(f, 3)
		s.Cov, s.Rules = pkvs(f[1]), pseqRules(f[2], true)
	case "cc2":
		need(f, 6)
		s.Cov, s.Cls, s.Cls2, s.Cls3, s.Rules = pkvs(f[1]), pkvs(f[2]), pkvs(f[3]), pkvs(f[4]), pseqRules(f[5], true)
	case "cc3":
		need(f, 5)
		s.SetsB, s.SetsI, s.SetsL, s.Acts = pintss(f[1]), pintss(f[2]), pintss(f[3]), pacts(f[4])
	case "p11":
		need(f, 3)
		s.Set, s.V = pints(f[1]), pvr(f[2])
	case "p12":
		need(f, 3)
		s.Cov = pkvs(f[1])
		for _, v := range plist(f[2]) {
			s.Vs = append(s.Vs, pvr(v))
		}
	case "p21":
		need(f, 2)
		for _, p := range plist(f[1]) {
			q := plist(p)
			s.Pairs = append(s.Pairs, PairEnt{pint(q[0]), pint(q[1]), pvr(q[2]), pvr(q[3])})
		}
	case "p22":
		need(f, 5)
		s.Set, s.Cls, s.Cls2 = pints(f[1]), pkvs(f[2]), pkvs(f[3])
		for _, row := range plist(f[4]) {
			rr := []PairAdj{}
			for _, a := range plist(row) {
				q := plist(a)
				rr = append(rr, PairAdj{pvr(q[0]), pvr(q[1])})
			}
			s.Adj = append(s.Adj, rr)
		}
	case "p31":
		need(f, 3)
		s.Cov = pkvs(f[1])
		for _, e := range plist(f[2]) {
			q := pints(e)
			s.EE = append(s.EE, [4]int{q[0], q[1], q[2], q[3]})
		}
	case "p41", "p61":
		need(f, 5)
		s.Cov, s.Cov2 = pkvs(f[1]), pkvs(f[2])
		for _, m := range plist(f[3]) {
			q := pints(m)
			s.Marks = append(s.Marks, MarkRec{q[0], q[1], q[2]})
		}
		for _, row := range plist(f[4]) {
			rr := [][2]int{}
			for _, a := range plist(row) {
				q := pints(a)
				rr = append(rr, [2]int{q[0], q[1]})
			}
			s.Bases = append(s.Bases, rr)
		}
	default:
		panic(perr{errors.New("unknown subtable kind " + s.Kind)})
	}
	return s
}

func parseSeq(x vlib.Sx) []G {
	l := plist(x)
	out := make([]G, len(l))
	for i, y := range l {
		f := plist(y)
		if len(f) != 5 {
			panic(perr{errors.New("glyph: 5 fields expected")})
		}
		t := pints(f[1])
		rs := make([]rune, len(t))
		for j, r := range t {
			rs[j] = rune(r)
		}
		out[i] = G{pint(f[0]), rs, pint(f[2]), pint(f[3]), pint(f[4])}
	}
	return out
}

func parseGdef(x vlib.Sx) *Gdef {
	if a, ok := x.(vlib.Atom); ok && a == "nil" {
		return nil
	}
	f := plist(x)
	if len(f) != 3 {
		panic(perr{errors.New("gdef: 3 fields expected")})
	}
	g := &Gdef{}
	if a, ok := f[0].(vlib.Atom); !(ok && a == "nil") {
		g.HasClass = true
		g.Class = pkvs(f[0])
	}
	g.Attach = pkvs(f[1])
	g.Sets = pintss(f[2])
	return g
}

func ParseCase(items []vlib.Sx) (c *Case, err error) {
	defer func() {
		if e := recover(); e != nil {
			if pe, ok := e.(perr); ok {
				err = pe.err
				return
			}
			panic(e)
		}
	}()
	if len(items) != 4 {
		return nil, errors.New("C07 case: want 4 items")
	}
	c = &Case{}
	for _, l := range plist(items[0]) {
		f := plist(l)
		if len(f) != 3 {
			return nil, errors.New("lookup: 3 fields expected")
		}
		lk := &Lookup{Flags: pint(f[0]), MFS: pint(f[1])}
		for _, s := range plist(f[2]) {
			lk.Subs = append(lk.Subs, parseSub(s))
		}
		c.LL = append(c.LL, lk)
	}
	c.Gdef = parseGdef(items[1])
	c.Lookups = pints(items[2])
	for _, s := range plist(items[3]) {
		c.Hist = append(c.Hist, parseSeq(s))
	}
	return c, nil
}

// ---------------------------------------------------------------- to gtab structures

func covTable(kv []KV) coverage.Table {
	t := coverage.Table{}
	for _, e := range kv {
		if _, ok := t[glyph.ID(e.K)]; !ok { // first entry wins, as in the model's association list
			t[glyph.ID(e.K)] = e.V
		}
	}
	return t
}
func covSet(xs []int) coverage.Set {
	t := coverage.Set{}
	for _, x := range xs {
		t[glyph.ID(x)] = true
	}
	return t
}
func covSets(xs [][]int) []coverage.Set {
	out := make([]coverage.Set, len(xs))
	for i, x := range xs {
		out[i] = covSet(x)
	}
	return out
}
func classTable(kv []KV) classdef.Table {
	t := classdef.Table{}
	for _, e := range kv {
		if _, ok := t[glyph.ID(e.K)]; !ok {
			t[glyph.ID(e.K)] = uint16(e.V)
		}
	}
	return t
}
func gids(xs []int) []glyph.ID {
	out := make([]glyph.ID, len(xs))
	for i, x := range xs {
		out[i] = glyph.ID(x)
	}
	return out
}
func u16s(xs []int) []uint16 {
	out := make([]uint16, len(xs))
	for i, x := range xs {
		out[i] = uint16(x)
	}
	return out
}
func seqLookups(xs []Act) []gtab.SeqLookup {
	out := make([]gtab.SeqLookup, len(xs))
	for i, x := range xs {
		out[i] = gtab.SeqLookup{SequenceIndex: uint16(x.Seq), LookupListIndex: gtab.LookupIndex(x.Lk)}
	}
	return out
}
func valueRecord(v *VR) *gtab.GposValueRecord {
	if v == nil {
		return nil
	}
	return &gtab.GposValueRecord{
		XPlacement: funit.Int16(v[0]), YPlacement: funit.Int16(v[1]), XAdvance: funit.Int16(v[2]), YAdvance: funit.Int16(v[3]),
		XPlacementDevOffs: uint16(v[4]), YPlacementDevOffs: uint16(v[5]), XAdvanceDevOffs: uint16(v[6]), YAdvanceDevOffs: uint16(v[7]),
	}
}

func (s *Sub) Gtab() gtab.Subtable {
	switch s.Kind {
	case "g11":
		return &gtab.Gsub1_1{Cov: covSet(s.Set), Delta: glyph.ID(s.Delta)}
	case "g12":
		return &gtab.Gsub1_2{Cov: covTable(s.Cov), SubstituteGlyphIDs: gids(s.Gids)}
	case "g21":
		r := make([][]glyph.ID, len(s.Lists))
		for i, l := range s.Lists {
			r[i] = gids(l)
		}
		return &gtab.Gsub2_1{Cov: covTable(s.Cov), Repl: r}
	case "g31":
		r := make([][]glyph.ID, len(s.Lists))
		for i, l := range s.Lists {
			r[i] = gids(l)
		}
		return &gtab.Gsub3_1{Cov: covTable(s.Cov), Alternates: r}
	case "g41":
		r := make([][]gtab.Ligature, len(s.Ligs))
		for i, set := range s.Ligs {
			r[i] = make([]gtab.Ligature, len(set))
			for j, lg := range set {
				r[i][j] = gtab.Ligature{In: gids(lg.In), Out: glyph.ID(lg.Out)}
			}
		}
		return &gtab.Gsub4_1{Cov: covTable(s.Cov), Repl: r}
	case "g81":
		b := make([]coverage.Table, len(s.CovsB))
		for i, c := range s.CovsB {
			b[i] = covTable(c)
		}
		l := make([]coverage.Table, len(s.CovsL))
		for i, c := range s.CovsL {
			l[i] = covTable(c)
		}
		return &gtab.Gsub8_1{Input: covTable(s.Cov), Backtrack: b, Lookahead: l, SubstituteGlyphIDs: gids(s.Gids)}
	case "sc1":
		r := make([][]*gtab.SeqRule, len(s.Rules))
		for i, set := range s.Rules {
			r[i] = make([]*gtab.SeqRule, len(set))
			for j, ru := range set {
				r[i][j] = &gtab.SeqRule{Input: gids(ru.In), Actions: seqLookups(ru.Acts)}
			}
		}
		return &gtab.SeqContext1{Cov: covTable(s.Cov), Rules: r}
	case "sc2":
		r := make([][]*gtab.ClassSeqRule, len(s.Rules))
		for i, set := range s.Rules {
			r[i] = make([]*gtab.ClassSeqRule, len(set))
			for j, ru := range set {
				r[i][j] = &gtab.ClassSeqRule{Input: u16s(ru.In), Actions: seqLookups(ru.Acts)}
			}
		}
		return &gtab.SeqContext2{Cov: covTable(s.Cov), Input: classTable(s.Cls), Rules: r}
	case "sc3":
		return &gtab.SeqContext3{Input: covSets(s.SetsI), Actions: seqLookups(s.Acts)}
	case "cc1":
		r := make([][]*gtab.ChainedSeqRule, len(s.Rules))
		for i, set := range s.Rules {
			r[i] = make([]*gtab.ChainedSeqRule, len(set))
			for j, ru := range set {
				r[i][j] = &gtab.ChainedSeqRule{Backtrack: gids(ru.Back), Input: gids(ru.In), Lookahead: gids(ru.Look), Actions: seqLookups(ru.Acts)}
			}
		}
		return &gtab.ChainedSeqContext1{Cov: covTable(s.Cov), Rules: r}
	case "cc2":
		r := make([][]*gtab.ChainedClassSeqRule, len(s.Rules))
		for i, set := range s.Rules {
			r[i] = make([]*gtab.ChainedClassSeqRule, len(set))
			for j, ru := range set {
				r[i][j] = &gtab.ChainedClassSeqRule{Backtrack: u16s(ru.Back), Input: u16s(ru.In), Lookahead: u16s(ru.Look), Actions: seqLookups(ru.Acts)}
			}
		}
		return &gtab.ChainedSeqContext2{Cov: covTable(s.Cov), Backtrack: classTable(s.Cls), Input: classTable(s.Cls2), Lookahead: classTable(s.Cls3), Rules: r}
	case "cc3":
		return &gtab.ChainedSeqContext3{Backtrack: covSets(s.SetsB), Input: covSets(s.SetsI), Lookahead: covSets(s.SetsL), Actions: seqLookups(s.Acts)}
	case "p11":
		t := coverage.Table{}
		for i, x := range s.Set {
			if _, ok := t[glyph.ID(x)]; !ok {
				t[glyph.ID(x)] = i
			}
		}
		return &gtab.Gpos1_1{Cov: t, Adjust: valueRecord(s.V)}
	case "p12":
		a := make([]*gtab.GposValueRecord, len(s.Vs))
		for i, v := range s.Vs {
			a[i] = valueRecord(v)
		}
		return &gtab.Gpos1_2{Cov: covTable(s.Cov), Adjust: a}
	case "p21":
		m := gtab.Gpos2_1{}
		for _, p := range s.Pairs {
			key := glyph.Pair{Left: glyph.ID(p.L), Right: glyph.ID(p.R)}
			if _, ok := m[key]; !ok {
				m[key] = &gtab.PairAdjust{First: valueRecord(p.V1), Second: valueRecord(p.V2)}
			}
		}
		return m
	case "p22":
		a := make([][]*gtab.PairAdjust, len(s.Adj))
		for i, row := range s.Adj {
			a[i] = make([]*gtab.PairAdjust, len(row))
			for j, x := range row {
				a[i][j] = &gtab.PairAdjust{First: valueRecord(x.V1), Second: valueRecord(x.V2)}
			}
		}
		return &gtab.Gpos2_2{Cov: covSet(s.Set), Class1: classTable(s.Cls), Class2: classTable(s.Cls2), Adjust: a}
	case "p31":
		r := make([]gtab.EntryExitRecord, len(s.EE))
		for i, e := range s.EE {
			r[i] = gtab.EntryExitRecord{Entry: anchor.Table{X: funit.Int16(e[0]), Y: funit.Int16(e[1])}, Exit: anchor.Table{X: funit.Int16(e[2]), Y: funit.Int16(e[3])}}
		}
		return &gtab.Gpos3_1{Cov: covTable(s.Cov), Records: r}
	case "p41", "p61":
		m := make([]markarray.Record, len(s.Marks))
		for i, r := range s.Marks {
			m[i] = markarray.Record{Class: uint16(r.Class), Table: anchor.Table{X: funit.Int16(r.X), Y: funit.Int16(r.Y)}}
		}
		b := make([][]anchor.Table, len(s.Bases))
		for i, row := range s.Bases {
			b[i] = make([]anchor.Table, len(row))
			for j, a := range row {
				b[i][j] = anchor.Table{X: funit.Int16(a[0]), Y: funit.Int16(a[1])}
			}
		}
		if s.Kind == "p41" {
			return &gtab.Gpos4_1{MarkCov: covTable(s.Cov), BaseCov: covTable(s.Cov2), MarkArray: m, BaseArray: b}
		}
		return &gtab.Gpos6_1{Mark1Cov: covTable(s.Cov), Mark2Cov: covTable(s.Cov2), Mark1Array: m, Mark2Array: b}
	case "p51":
		return &gtab.Gpos5_1{}
	}
	panic("unknown subtable kind " + s.Kind)
}

var lookupTypes = map[string]uint16{
	"g11": 1, "g12": 1, "g21": 2, "g31": 3, "g41": 4, "sc1": 5, "sc2": 5, "sc3": 5, "cc1": 6, "cc2": 6, "cc3": 6, "g81": 8,
	"p11": 1, "p12": 1, "p21": 2, "p22": 2, "p31": 3, "p41": 4, "p51": 5, "p61": 6,
}

func isGpos(kind string) bool { return kind[0] == 'p' }

// Gtab builds the real lookup list.  Contextual subtables get the GSUB type
// numbers (5, 6) unless the lookup list is a GPOS one (7, 8); the engine does
// not look at LookupType.
func (c *Case) Gtab() (gtab.LookupList, *gdef.Table, []gtab.LookupIndex) {
	gpos := false
	for _, l := range c.LL {
		for _, s := range l.Subs {
			if isGpos(s.Kind) {
				gpos = true
			}
		}
	}
	ll := make(gtab.LookupList, len(c.LL))
	for i, l := range c.LL {
		t := &gtab.LookupTable{Meta: &gtab.LookupMetaInfo{LookupFlags: gtab.LookupFlags(l.Flags), MarkFilteringSet: uint16(l.MFS)}}
		for _, s := range l.Subs {
			t.Subtables = append(t.Subtables, s.Gtab())
		}
		if len(l.Subs) > 0 {
			tp := lookupTypes[l.Subs[0].Kind]
			if gpos && (tp == 5 || tp == 6) && !isGpos(l.Subs[0].Kind) && l.Subs[0].Kind[0] != 'g' {
				tp += 2
			}
			t.Meta.LookupType = tp
		}
		ll[i] = t
	}
	var gd *gdef.Table
	if c.Gdef != nil {
		gd = &gdef.Table{}
		if c.Gdef.HasClass {
			gd.GlyphClass = classTable(c.Gdef.Class)
		}
		if len(c.Gdef.Attach) > 0 {
			gd.MarkAttachClass = classTable(c.Gdef.Attach)
		}
		if len(c.Gdef.Sets) > 0 {
			gd.MarkGlyphSets = covSets(c.Gdef.Sets)
		}
	}
	lookups := make([]gtab.LookupIndex, len(c.Lookups))
	for i, x := range c.Lookups {
		lookups[i] = gtab.LookupIndex(x)
	}
	return ll, gd, lookups
}

// toInfo builds the input sequence the way a caller does who splits one rune
// slice into per-glyph pieces: every glyph's Text is a sub-slice of ONE shared
// array, so its capacity reaches into the text of the glyphs that follow.  A
// lookup that appends to a glyph's Text in place (instead of building the new
// text in memory of its own) then overwrites the text of later glyphs, which the
// text-conservation oracle sees.
func toInfo(s []G) []glyph.Info {
	total := 0
	for _, g := range s {
		total += len(g.Text)
	}
	shared := make([]rune, 0, total+4)
	out := make([]glyph.Info, len(s))
	for i, g := range s {
		a := len(shared)
		shared = append(shared, g.Text...)
		var text []rune
		if g.Text != nil {
			text = shared[a:len(shared)] // capacity extends to the end of the shared array
		}
		out[i] = glyph.Info{GID: glyph.ID(g.Gid), Text: text,
			XOffset: funit.Int16(g.X), YOffset: funit.Int16(g.Y), Advance: funit.Int16(g.A)}
	}
	// sentinel runes behind the last glyph's text
	shared = append(shared, 0x2603, 0x2603, 0x2603, 0x2603)
	return out
}

func fromInfo(s []glyph.Info) []G {
	out := make([]G, len(s))
	for i, g := range s {
		out[i] = G{int(g.GID), append([]rune(nil), g.Text...), int(g.XOffset), int(g.YOffset), int(g.Advance)}
	}
	return out
}

// ---------------------------------------------------------------- from gtab structures (tables returned by gtab.Read)

func kvOfCov(t coverage.Table) []KV {
	out := make([]KV, 0, len(t))
	for g, i := range t {
		out = append(out, KV{int(g), i})
	}
	sort.Slice(out, func(i, j int) bool { return out[i].K < out[j].K })
	return out
}
func listOfSet(t coverage.Set) []int {
	out := make([]int, 0, len(t))
	for g, ok := range t {
		if ok {
			out = append(out, int(g))
		}
	}
	sort.Ints(out)
	return out
}
func listsOfSets(ts []coverage.Set) [][]int {
	out := make([][]int, len(ts))
	for i, t := range ts {
		out[i] = listOfSet(t)
	}
	return out
}
func kvOfClass(t classdef.Table) []KV {
	out := make([]KV, 0, len(t))
	for g, c := range t {
		out = append(out, KV{int(g), int(c)})
	}
	sort.Slice(out, func(i, j int) bool { return out[i].K < out[j].K })
	return out
}
func intsOfGids(xs []glyph.ID) []int {
	out := make([]int, len(xs))
	for i, x := range xs {
		out[i] = int(x)
	}
	return out
}
func intsOfU16(xs []uint16) []int {
	out := make([]int, len(xs))
	for i, x := range xs {
		out[i] = int(x)
	}
	return out
}
func actsOf(xs []gtab.SeqLookup) []Act {
	out := make([]Act, len(xs))
	for i, x := range xs {
		out[i] = Act{int(x.SequenceIndex), int(x.LookupListIndex)}
	}
	return out
}
func vrOf(v *gtab.GposValueRecord) *VR {
	if v == nil {
		return nil
	}
	return &VR{int(v.XPlacement), int(v.YPlacement), int(v.XAdvance), int(v.YAdvance),
		int(v.XPlacementDevOffs), int(v.YPlacementDevOffs), int(v.XAdvanceDevOffs), int(v.YAdvanceDevOffs)}
}

// SubFromGtab converts a subtable returned by the reader; ok=false when the
// harness has no representation for it (nil entries, unknown types).
func SubFromGtab(st gtab.Subtable) (s *Sub, ok bool) {
	defer func() {
		if e := recover(); e != nil {
			s, ok = nil, false
		}
	}()
	switch t := st.(type) {
	case *gtab.Gsub1_1:
		return &Sub{Kind: "g11", Set: listOfSet(t.Cov), Delta: int(t.Delta)}, true
	case *gtab.Gsub1_2:
		return &Sub{Kind: "g12", Cov: kvOfCov(t.Cov), Gids: intsOfGids(t.SubstituteGlyphIDs)}, true
	case *gtab.Gsub2_1:
		s := &Sub{Kind: "g21", Cov: kvOfCov(t.Cov)}
		for _, r := range t.Repl {
			s.Lists = append(s.Lists, intsOfGids(r))
		}
		return s, true
	case *gtab.Gsub3_1:
		s := &Sub{Kind: "g31", Cov: kvOfCov(t.Cov)}
		for _, r := range t.Alternates {
			s.Lists = append(s.Lists, intsOfGids(r))
		}
		return s, true
	case *gtab.Gsub4_1:
		s := &Sub{Kind: "g41", Cov: kvOfCov(t.Cov)}
		for _, set := range t.Repl {
			ls := []Lig{}
			for _, lg := range set {
				ls = append(ls, Lig{In: intsOfGids(lg.In), Out: int(lg.Out)})
			}
			s.Ligs = append(s.Ligs, ls)
		}
		return s, true
	case *gtab.Gsub8_1:
		s := &Sub{Kind: "g81", Cov: kvOfCov(t.Input), Gids: intsOfGids(t.SubstituteGlyphIDs)}
		for _, c := range t.Backtrack {
			s.CovsB = append(s.CovsB, kvOfCov(c))
		}
		for _, c := range t.Lookahead {
			s.CovsL = append(s.CovsL, kvOfCov(c))
		}
		return s, true
	case *gtab.SeqContext1:
		s := &Sub{Kind: "sc1", Cov: kvOfCov(t.Cov)}
		for _, set := range t.Rules {
			rs := []Rule{}
			for _, r := range set {
				rs = append(rs, Rule{In: intsOfGids(r.Input), Acts: actsOf(r.Actions)})
			}
			s.Rules = append(s.Rules, rs)
		}
		return s, true
	case *gtab.SeqContext2:
		s := &Sub{Kind: "sc2", Cov: kvOfCov(t.Cov), Cls: kvOfClass(t.Input)}
		for _, set := range t.Rules {
			rs := []Rule{}
			for _, r := range set {
				rs = append(rs, Rule{In: intsOfU16(r.Input), Acts: actsOf(r.Actions)})
			}
			s.Rules = append(s.Rules, rs)
		}
		return s, true
	case *gtab.SeqContext3:
		return &Sub{Kind: "sc3", SetsI: listsOfSets(t.Input), Acts: actsOf(t.Actions)}, true
	case *gtab.ChainedSeqContext1:
		s := &Sub{Kind: "cc1", Cov: kvOfCov(t.Cov)}
		for _, set := range t.Rules {
			rs := []Rule{}
			for _, r := range set {
				rs = append(rs, Rule{Back: intsOfGids(r.Backtrack), In: intsOfGids(r.Input), Look: intsOfGids(r.Lookahead), Acts: actsOf(r.Actions)})
			}
			s.Rules = append(s.Rules, rs)
		}
		return s, true
	case *gtab.ChainedSeqContext2:
		s := &Sub{Kind: "cc2", Cov: kvOfCov(t.Cov), Cls: kvOfClass(t.Backtrack), Cls2: kvOfClass(t.Input), Cls3: kvOfClass(t.Lookahead)}
		for _, set := range t.Rules {
			rs := []Rule{}
			for _, r := range set {
				rs = append(rs, Rule{Back: intsOfU16(r.Backtrack), In: intsOfU16(r.Input), Look: intsOfU16(r.Lookahead), Acts: actsOf(r.Actions)})
			}
			s.Rules = append(s.Rules, rs)
		}
		return s, true
	case *gtab.ChainedSeqContext3:
		return &Sub{Kind: "cc3", SetsB: listsOfSets(t.Backtrack), SetsI: listsOfSets(t.Input), SetsL: listsOfSets(t.Lookahead), Acts: actsOf(t.Actions)}, true
	case *gtab.Gpos1_1:
		set := []int{}
		for _, e := range kvOfCov(t.Cov) {
			set = append(set, e.K)
		}
		return &Sub{Kind: "p11", Set: set, V: vrOf(t.Adjust)}, true
	case *gtab.Gpos1_2:
		s := &Sub{Kind: "p12", Cov: kvOfCov(t.Cov)}
		for _, v := range t.Adjust {
			s.Vs = append(s.Vs, vrOf(v))
		}
		return s, true
	case gtab.Gpos2_1:
		s := &Sub{Kind: "p21"}
		for k, v := range t {
			if v == nil {
				return nil, false
			}
			s.Pairs = append(s.Pairs, PairEnt{int(k.Left), int(k.Right), vrOf(v.First), vrOf(v.Second)})
		}
		sort.Slice(s.Pairs, func(i, j int) bool {
			if s.Pairs[i].L != s.Pairs[j].L {
				return s.Pairs[i].L < s.Pairs[j].L
			}
			return s.Pairs[i].R < s.Pairs[j].R
		})
		return s, true
	case *gtab.Gpos2_2:
		s := &Sub{Kind: "p22", Set: listOfSet(t.Cov), Cls: kvOfClass(t.Class1), Cls2: kvOfClass(t.Class2)}
		for _, row := range t.Adjust {
			rr := []PairAdj{}
			for _, a := range row {
				if a == nil {
					return nil, false
				}
				rr = append(rr, PairAdj{vrOf(a.First), vrOf(a.Second)})
			}
			s.Adj = append(s.Adj, rr)
		}
		return s, true
	case *gtab.Gpos3_1:
		s := &Sub{Kind: "p31", Cov: kvOfCov(t.Cov)}
		for _, r := range t.Records {
			s.EE = append(s.EE, [4]int{int(r.Entry.X), int(r.Entry.Y), int(r.Exit.X), int(r.Exit.Y)})
		}
		return s, true
	case *gtab.Gpos4_1:
		s := &Sub{Kind: "p41", Cov: kvOfCov(t.MarkCov), Cov2: kvOfCov(t.BaseCov)}
		for _, r := range t.MarkArray {
			s.Marks = append(s.Marks, MarkRec{int(r.Class), int(r.X), int(r.Y)})
		}
		for _, row := range t.BaseArray {
			rr := [][2]int{}
			for _, a := range row {
				rr = append(rr, [2]int{int(a.X), int(a.Y)})
			}
			s.Bases = append(s.Bases, rr)
		}
		return s, true
	case *gtab.Gpos6_1:
		s := &Sub{Kind: "p61", Cov: kvOfCov(t.Mark1Cov), Cov2: kvOfCov(t.Mark2Cov)}
		for _, r := range t.Mark1Array {
			s.Marks = append(s.Marks, MarkRec{int(r.Class), int(r.X), int(r.Y)})
		}
		for _, row := range t.Mark2Array {
			rr := [][2]int{}
			for _, a := range row {
				rr = append(rr, [2]int{int(a.X), int(a.Y)})
			}
			s.Bases = append(s.Bases, rr)
		}
		return s, true
	case *gtab.Gpos5_1:
		return &Sub{Kind: "p51"}, true
	}
	return nil, false
}

// LLFromGtab converts a lookup list returned by gtab.Read.
func LLFromGtab(ll gtab.LookupList) ([]*Lookup, bool) {
	out := make([]*Lookup, len(ll))
	for i, t := range ll {
		if t == nil || t.Meta == nil {
			return nil, false
		}
		l := &Lookup{Flags: int(t.Meta.LookupFlags), MFS: int(t.Meta.MarkFilteringSet)}
		for _, st := range t.Subtables {
			s, ok := SubFromGtab(st)
			if !ok {
				return nil, false
			}
			l.Subs = append(l.Subs, s)
		}
		out[i] = l
	}
	return out, true
}
