package c07

import (
	"seehuhn.de/go/sfnt/verifharness/vlib"
)

// Stream "stale-state": histories of Apply calls on ONE Context over lookup
// lists in which several lookups that are only reachable as NESTED lookups
// (invoked from contextual rules) agree in a part of their meta data and
// differ in the rest:
//
//	dim mfs    : identical flag word (UseMarkFilteringSet | extra bits), different MarkFilteringSet
//	dim attach : identical low flag bits and MarkFilteringSet, different mark attachment type
//	dim flags  : identical MarkFilteringSet, different flag words
//	dim same   : identical meta data, different position in the lookup list
//	dim mixed  : unrelated meta data
//
// The GDEF table has 2-3 mark glyph sets which pairwise disagree on some mark
// and 2-3 different mark attachment classes, so that any two children of one
// family disagree on which of the three marks they skip.  The children share
// their subtables ("body"); which child runs is decided by the first glyph of
// the match (the "selector" F_k) through the rules of the root lookup, which
// exists in all six contextual formats.  The sequences put the marks between
// the selector and the second component X, i.e. inside the scan range of the
// nested lookup, or make the nested lookup act on the mark itself.
//
// Whatever the engine keeps between two nested actions, two Apply calls or
// two Layout calls (keep functions, matched positions, scratch buffers,
// per-lookup or per-length memos) and keys by only a part of
// (lookup index, flags, filtering set, subtable, position, sequence) shows as
// a difference between the call on the used context and the same call on a
// new context (oracle c07-history-dependent), between two orders of the
// earlier calls (c07-order-dependent), and against the model M_shape, which
// recomputes everything per nested action.
//
// The same families are run through the public Layouter (layout.go, stream
// "layouter-stale") with only the root lookups listed in the feature.

type palette struct {
	F        []int  // selectors (base glyphs)
	X, Y     int    // second component, filler (base glyphs)
	Marks    [3]int // the three marks
	Lig      int    // a glyph of class "ligature"
	OutBase  int    // outputs are OutBase + 3*series + k
	IncDelta int    // the grandchild single substitution adds this
}

var palCtx = &palette{F: []int{1, 2, 3}, X: 4, Y: 5, Marks: [3]int{10, 11, 12}, Lig: 20, OutBase: 40, IncDelta: 100}

// debug.MakeSimpleFont: 'A'..'Z' are glyphs 4..29 of 33; with outputs 13..24
// and increments of 1 (which stop at 25, the first glyph outside all()) every
// glyph id stays inside the font.
var palFont = &palette{F: []int{4, 5, 6}, X: 7, Y: 8, Marks: [3]int{10, 11, 12}, Lig: 9, OutBase: 13, IncDelta: 1}

func (p *palette) out(series, k int) int { return p.OutBase + 3*series + k }

func (p *palette) all() []int {
	out := append([]int(nil), p.F...)
	out = append(out, p.X, p.Y, p.Marks[0], p.Marks[1], p.Marks[2], p.Lig)
	for s := 0; s < 4; s++ {
		for k := 0; k < 3; k++ {
			out = append(out, p.out(s, k))
		}
	}
	return out
}

// gdef: bases, three marks, one ligature glyph; mark glyph sets that pairwise
// disagree; attachment classes with at least two values.
func (p *palette) gdef(r *vlib.Rand) *Gdef {
	g := &Gdef{HasClass: true}
	for _, f := range p.F {
		g.Class = append(g.Class, KV{f, 1})
	}
	g.Class = append(g.Class, KV{p.X, 1})
	if r.Chance(3, 4) {
		g.Class = append(g.Class, KV{p.Y, 1})
	}
	for _, m := range p.Marks {
		g.Class = append(g.Class, KV{m, 3})
	}
	g.Class = append(g.Class, KV{p.Lig, 2})
	if r.Chance(1, 3) {
		for k := 0; k < 3; k++ {
			g.Class = append(g.Class, KV{p.out(0, k), 2})
		}
	}
	m := p.Marks
	switch r.Intn(5) {
	case 0:
		g.Sets = [][]int{{m[0]}, {m[1]}, {m[2]}}
	case 1:
		g.Sets = [][]int{{m[0], m[1]}, {m[1], m[2]}, {m[0], m[2]}}
	case 2:
		g.Sets = [][]int{{m[0]}, {m[1], m[2]}} // index 2 is out of range: every mark skipped
	case 3:
		g.Sets = [][]int{{m[0], m[1], m[2]}, {m[0]}, {}}
	default:
		g.Sets = [][]int{{m[1], p.F[0]}, {m[2], m[0]}, {m[0], m[1], p.X}}
	}
	switch r.Intn(4) {
	case 0:
		g.Attach = []KV{{m[0], 1}, {m[1], 2}, {m[2], 3}}
	case 1:
		g.Attach = []KV{{m[0], 2}, {m[1], 3}, {m[2], 1}}
	case 2:
		g.Attach = []KV{{m[0], 1}, {m[1], 2}, {m[2], 1}}
	default:
		g.Attach = []KV{{m[0], 3}, {m[1], 1}} // m[2]: class 0
	}
	return g
}

var familyDims = []string{"mfs", "attach", "flags", "same", "mixed"}

// bodies whose first glyph is the selector / the second component / a mark
var familyBodies = []string{"g41", "g41x2", "g81", "p21", "p22", "sc1", "sc2", "sc3", "cc1", "cc2", "cc3", "cc1b", "cc2b", "cc3b", "g11m", "g21m", "p11m"}
var familyBodiesGsub = []string{"g41", "g41x2", "g81", "sc1", "sc2", "sc3", "cc1", "cc2", "cc3", "cc1b", "cc2b", "cc3b", "g11m", "g21m"}
var familyBodiesGpos = []string{"p21", "p22", "p11m", "p21", "p22"}

func permOf(r *vlib.Rand, n int) []int {
	p := make([]int, n)
	for i := range p {
		p[i] = i
	}
	for i := n - 1; i > 0; i-- {
		j := r.Intn(i + 1)
		p[i], p[j] = p[j], p[i]
	}
	return p
}

// familyMetas returns the flag words and filtering-set indices of the K children.
func familyMetas(r *vlib.Rand, dim string, K int) (flags, mfs []int) {
	flags, mfs = make([]int, K), make([]int, K)
	perm := permOf(r, 3)
	switch dim {
	case "mfs":
		extra := vlib.Pick(r, []int{0, 0, 0, 0x100, 0x4, 0x1, 0x300, 0x2})
		for k := range flags {
			flags[k], mfs[k] = 0x10|extra, perm[k]
		}
	case "attach":
		extra := vlib.Pick(r, []int{0, 0, 0, 4, 1})
		s := r.Intn(3)
		for k := range flags {
			flags[k], mfs[k] = (perm[k]+1)<<8|extra, s
		}
	case "flags":
		pool := []int{0x10, 0x8, 0, 0x100, 0x200, 0x110, 0x18, 0x14, 0x300, 0x2}
		pp := permOf(r, len(pool))
		s := r.Intn(3)
		for k := range flags {
			flags[k], mfs[k] = pool[pp[k]], s
		}
	case "same":
		f := vlib.Pick(r, []int{0x10, 0x10, 0x100, 0x8, 0, 0x210})
		s := r.Intn(3)
		for k := range flags {
			flags[k], mfs[k] = f, s
		}
	default:
		for k := range flags {
			flags[k], mfs[k] = vlib.Pick(r, flagChoices), r.Intn(3)
		}
	}
	return flags, mfs
}

// hrule is a contextual rule over alternatives: position i of the input
// matches any glyph of In[i].  Back is in format order (closest glyph first).
type hrule struct {
	Back, In, Look [][]int
	Acts           []Act
}

func expandAlts(alts [][]int) [][]int {
	out := [][]int{{}}
	for _, a := range alts {
		var next [][]int
		for _, pre := range out {
			for _, g := range a {
				next = append(next, append(append([]int(nil), pre...), g))
			}
		}
		out = next
	}
	return out
}

// ctxBuild realises the rules in the given contextual format.  Formats 1 and
// 2 give one subtable, format 3 one subtable per rule.  For format 2 every
// glyph of the palette has a class of its own (class = index in all() + 1).
func (p *palette) ctxBuild(kind string, rules []hrule) []*Sub {
	chain := kind[0] == 'c'
	switch kind {
	case "sc3", "cc3":
		var subs []*Sub
		for _, ru := range rules {
			s := &Sub{Kind: kind, SetsI: ru.In, Acts: ru.Acts}
			if chain {
				s.SetsB, s.SetsL = ru.Back, ru.Look
				if s.SetsB == nil {
					s.SetsB = [][]int{}
				}
				if s.SetsL == nil {
					s.SetsL = [][]int{}
				}
			}
			subs = append(subs, s)
		}
		return subs
	}
	byClass := kind == "sc2" || kind == "cc2"
	cls := map[int]int{}
	var clsTab []KV
	for i, g := range p.all() {
		cls[g] = i + 1
		clsTab = append(clsTab, KV{g, i + 1})
	}
	conv := func(xs []int) []int {
		out := make([]int, len(xs))
		for i, x := range xs {
			if byClass {
				out[i] = cls[x]
			} else {
				out[i] = x
			}
		}
		return out
	}
	s := &Sub{Kind: kind}
	slot := map[int]int{} // first glyph (or its class) -> index into Rules
	if byClass {
		s.Rules = make([][]Rule, len(clsTab)+1)
		for i := range s.Rules {
			s.Rules[i] = []Rule{}
		}
		if chain {
			s.Cls, s.Cls2, s.Cls3 = clsTab, clsTab, clsTab
		} else {
			s.Cls = clsTab
		}
	}
	for _, ru := range rules {
		backs, looks := [][]int{{}}, [][]int{{}}
		if chain {
			backs, looks = expandAlts(ru.Back), expandAlts(ru.Look)
		}
		for _, in := range expandAlts(ru.In) {
			first := in[0]
			var idx int
			if byClass {
				idx = cls[first]
				if _, ok := slot[first]; !ok {
					slot[first] = idx
					s.Cov = append(s.Cov, KV{first, len(s.Cov)})
				}
			} else {
				var ok bool
				idx, ok = slot[first]
				if !ok {
					idx = len(s.Rules)
					slot[first] = idx
					s.Cov = append(s.Cov, KV{first, idx})
					s.Rules = append(s.Rules, []Rule{})
				}
			}
			for _, b := range backs {
				for _, l := range looks {
					rr := Rule{In: conv(in[1:]), Acts: ru.Acts}
					if chain {
						rr.Back, rr.Look = conv(b), conv(l)
					}
					s.Rules[idx] = append(s.Rules[idx], rr)
				}
			}
		}
	}
	return []*Sub{s}
}

// childBody builds the subtables shared by all children of a family.  where
// tells at which glyph of the root match the child has to be invoked:
// "F" (selector), "X" (second component) or "M" (the mark between them).
func (p *palette) childBody(r *vlib.Rand, K int, body string, incIdx int) (subs []*Sub, where string) {
	m := p.Marks
	switch body {
	case "g41", "g41x2":
		mk := func(ks []int) *Sub {
			s := &Sub{Kind: "g41"}
			for i, k := range ks {
				s.Cov = append(s.Cov, KV{p.F[k], i})
				var set []Lig
				if r.Chance(1, 3) { // a candidate that needs the mark as a component
					set = append(set, Lig{In: []int{m[r.Intn(3)], p.X}, Out: p.out(2, k)})
				}
				if r.Chance(1, 4) {
					set = append(set, Lig{In: []int{p.X, p.X}, Out: p.out(3, k)})
				}
				set = append(set, Lig{In: []int{p.X}, Out: p.out(0, k)})
				s.Ligs = append(s.Ligs, set)
			}
			return s
		}
		ks := make([]int, K)
		for k := range ks {
			ks[k] = k
		}
		if body == "g41x2" { // the first subtable knows one selector only
			return []*Sub{mk([]int{r.Intn(K)}), mk(ks)}, "F"
		}
		return []*Sub{mk(ks)}, "F"
	case "g81":
		s := &Sub{Kind: "g81", CovsB: [][]KV{}, CovsL: [][]KV{{{p.X, 0}}}}
		for k := 0; k < K; k++ {
			s.Cov = append(s.Cov, KV{p.F[k], k})
			s.Gids = append(s.Gids, p.out(1, k))
		}
		if r.Chance(1, 4) {
			s.CovsL = [][]KV{{{p.X, 0}, {m[0], 1}}, {{p.X, 0}, {p.Y, 1}, {p.F[0], 2}}}
		}
		return []*Sub{s}, "F"
	case "p21":
		s := &Sub{Kind: "p21"}
		for k := 0; k < K; k++ {
			s.Pairs = append(s.Pairs, PairEnt{p.F[k], p.X, &VR{0, 0, 10 * (k + 1), 0, 0, 0, 0, 0}, &VR{5, -5, 0, 0, 0, 0, 0, 0}})
			mm := m[r.Intn(3)]
			var second *VR
			if r.Bool() {
				second = &VR{k + 1, 0, 0, 0, 0, 0, 0, 0}
			}
			s.Pairs = append(s.Pairs, PairEnt{p.F[k], mm, &VR{1, 2, 3, 0, 0, 0, 0, 0}, second})
		}
		return []*Sub{s}, "F"
	case "p22":
		s := &Sub{Kind: "p22", Cls2: []KV{{p.X, 1}, {m[0], 2}, {m[1], 2}, {m[2], 2}}}
		for k := 0; k < K; k++ {
			s.Set = append(s.Set, p.F[k])
			s.Cls = append(s.Cls, KV{p.F[k], k + 1})
		}
		for c1 := 0; c1 <= K; c1++ {
			row := make([]PairAdj, 3)
			for c2 := range row {
				row[c2] = PairAdj{&VR{0, 0, 10*c1 + c2, 0, 0, 0, 0, 0}, nil}
				if c2 > 0 && r.Bool() {
					row[c2].V2 = &VR{c2, c1, 0, 0, 0, 0, 0, 0}
				}
			}
			s.Adj = append(s.Adj, row)
		}
		return []*Sub{s}, "F"
	case "sc1", "sc2", "sc3", "cc1", "cc2", "cc3":
		var rules []hrule
		for k := 0; k < K; k++ {
			ru := hrule{In: [][]int{{p.F[k]}, {p.X}}, Acts: []Act{{1, incIdx}}}
			switch r.Intn(4) {
			case 0:
				ru.Acts = []Act{{0, incIdx}}
			case 1:
				ru.Acts = []Act{{0, incIdx}, {1, incIdx}}
			}
			if body[0] == 'c' && r.Bool() {
				ru = hrule{In: [][]int{{p.F[k]}}, Look: [][]int{{p.X}}, Acts: []Act{{0, incIdx}}}
			}
			rules = append(rules, ru)
		}
		return p.ctxBuild(body, rules), "F"
	case "cc1b", "cc2b", "cc3b": // invoked at X, the selector is backtrack context
		var rules []hrule
		for k := 0; k < K; k++ {
			rules = append(rules, hrule{Back: [][]int{{p.F[k]}}, In: [][]int{{p.X}}, Acts: []Act{{0, incIdx}}})
		}
		return p.ctxBuild(body[:3], rules), "X"
	case "g11m":
		return []*Sub{{Kind: "g11", Set: []int{m[0], m[1], m[2]}, Delta: p.IncDelta}}, "M"
	case "g21m":
		s := &Sub{Kind: "g21"}
		for i, mm := range m {
			s.Cov = append(s.Cov, KV{mm, i})
			s.Lists = append(s.Lists, []int{mm, p.Y})
		}
		return []*Sub{s}, "M"
	case "p11m":
		return []*Sub{{Kind: "p11", Set: []int{m[0], m[1], m[2]}, V: &VR{3, 4, 5, 0, 0, 0, 0, 0}}}, "M"
	}
	panic("unknown family body " + body)
}

// family is one generated lookup list.
type family struct {
	K     int
	LL    []*Lookup
	Roots []int // the lookups applied at top level, in order
}

// buildFamily: lookup list = root lookups, K children (shuffled), the grandchild.
func (p *palette) buildFamily(r *vlib.Rand, rootKind, dim, body string) *family {
	K := r.Range(2, 3)
	flags, mfs := familyMetas(r, dim, K)
	R := 1
	if r.Chance(1, 4) {
		R = K // one root lookup per selector
	}
	childIdx := permOf(r, K)
	for k := range childIdx {
		childIdx[k] += R
	}
	incIdx := R + K
	gpos := body[0] == 'p'
	inc := &Lookup{Subs: []*Sub{{Kind: "g11", Set: p.all(), Delta: p.IncDelta}}}
	if gpos {
		inc = &Lookup{Subs: []*Sub{{Kind: "p11", Set: p.all(), V: &VR{7, -3, 11, 0, 0, 0, 0, 0}}}}
	}
	subs, where := p.childBody(r, K, body, incIdx)

	// the root: either it ignores all marks and matches "F X", or it has no
	// flags and matches "F mark X"
	m := p.Marks
	ignoring := where != "M" && r.Chance(2, 3)
	rootFlags, rootMFS := 0, 0
	if ignoring {
		switch r.Intn(5) {
		case 0:
			rootFlags, rootMFS = 0x10, 9 // index beyond MarkGlyphSets: every mark skipped
		case 1:
			rootFlags = 0x400 // attachment class 4 does not exist
		case 2:
			rootFlags, rootMFS = 0x18, r.Intn(3)
		default:
			rootFlags = 8
		}
	} else if r.Chance(1, 5) {
		rootFlags = 4
	}
	chain := rootKind[0] == 'c'
	rootRules := make([]hrule, K)
	for k := 0; k < K; k++ {
		var ru hrule
		var at map[string]int
		if ignoring {
			ru.In = [][]int{{p.F[k]}, {p.X}}
			at = map[string]int{"F": 0, "X": 1}
		} else {
			alts := []int{m[0], m[1], m[2]}
			if r.Chance(1, 4) {
				alts = alts[:2]
			}
			ru.In = [][]int{{p.F[k]}, alts, {p.X}}
			at = map[string]int{"F": 0, "M": 1, "X": 2}
		}
		ru.Acts = []Act{{at[where], childIdx[k]}}
		if r.Chance(1, 4) { // a second child at the same place
			ru.Acts = append(ru.Acts, Act{at[where], childIdx[(k+1)%K]})
		}
		if r.Chance(1, 6) {
			ru.Acts = append(ru.Acts, Act{r.Intn(len(ru.In)), incIdx})
		}
		if chain && r.Chance(1, 3) {
			ru.Look = [][]int{append(append([]int{p.Y}, p.F...), m[0], m[1], m[2])}
		}
		if chain && r.Chance(1, 5) {
			ru.Back = [][]int{{p.Y, p.X, m[0], m[1], m[2]}}
		}
		rootRules[k] = ru
	}
	f := &family{K: K}
	if R == 1 {
		f.LL = append(f.LL, &Lookup{Flags: rootFlags, MFS: rootMFS, Subs: p.ctxBuild(rootKind, rootRules)})
	} else {
		for k := 0; k < K; k++ {
			f.LL = append(f.LL, &Lookup{Flags: rootFlags, MFS: rootMFS, Subs: p.ctxBuild(rootKind, rootRules[k:k+1])})
		}
	}
	children := make([]*Lookup, K)
	for k := 0; k < K; k++ {
		children[childIdx[k]-R] = &Lookup{Flags: flags[k], MFS: mfs[k], Subs: subs}
	}
	f.LL = append(f.LL, children...)
	f.LL = append(f.LL, inc)
	f.Roots = permOf(r, R)
	if where == "F" && r.Chance(1, 10) {
		// the children themselves as top-level lookups (the keep function of
		// a top-level lookup is set up by Apply): no history can tell a memo
		// here, the comparison with the model does
		f.Roots = nil
		for _, k := range permOf(r, K) {
			f.Roots = append(f.Roots, childIdx[k])
		}
		if r.Bool() {
			f.Roots = append(f.Roots, 0)
		}
	} else if r.Chance(1, 8) { // a child also runs at top level, before or after the root
		c := childIdx[r.Intn(K)]
		if r.Bool() {
			f.Roots = append(f.Roots, c)
		} else {
			f.Roots = append([]int{c}, f.Roots...)
		}
	}
	return f
}

// famSeq: 1-3 segments "F mark* X mark?", with fillers.
func (p *palette) famSeq(r *vlib.Rand) []int {
	var s []int
	for n := r.Range(1, 3); n > 0; n-- {
		if r.Chance(1, 4) {
			s = append(s, p.Y)
		}
		s = append(s, p.F[r.Intn(3)])
		for k := vlib.Pick(r, []int{0, 1, 1, 1, 2}); k > 0; k-- {
			if r.Chance(1, 10) {
				s = append(s, p.Lig)
			} else {
				s = append(s, p.Marks[r.Intn(3)])
			}
		}
		s = append(s, p.X)
		if r.Chance(1, 5) {
			s = append(s, p.Marks[r.Intn(3)])
		}
		if r.Chance(1, 8) {
			s = append(s, p.X)
		}
	}
	return s
}

// famVariant: the same shape with the selectors shifted and the marks rotated
// (same length, the other children run).
func (p *palette) famVariant(r *vlib.Rand, s []int) []int {
	df, dm := r.Range(1, 2), r.Intn(3)
	out := make([]int, len(s))
	for i, g := range s {
		out[i] = g
		for k, f := range p.F {
			if g == f {
				out[i] = p.F[(k+df)%3]
			}
		}
		for k, m := range p.Marks {
			if g == m {
				out[i] = p.Marks[(k+dm)%3]
			}
		}
	}
	return out
}

// famHistory: 2-5 calls; later calls are often variants or repetitions of
// earlier ones.
func (p *palette) famHistory(r *vlib.Rand) [][]int {
	n := r.Range(2, 5)
	h := make([][]int, n)
	for i := range h {
		switch {
		case i > 0 && r.Chance(1, 3):
			h[i] = p.famVariant(r, h[r.Intn(i)])
		case i > 0 && r.Chance(1, 8):
			h[i] = append([]int(nil), h[r.Intn(i)]...)
		default:
			h[i] = p.famSeq(r)
		}
	}
	return h
}

func gidsToSeq(s []int, adv bool) []G {
	out := make([]G, len(s))
	for i, g := range s {
		out[i] = G{Gid: g, Text: []rune{rune('a' + i%26)}}
		if adv {
			out[i].A = 100 * (i + 1)
		}
	}
	return out
}

func reversed[T any](xs []T) []T {
	out := make([]T, len(xs))
	for i, x := range xs {
		out[len(xs)-1-i] = x
	}
	return out
}

func genStale(run *vlib.Run, r *vlib.Rand, tier string) {
	reps := vlib.Count(tier, 3, 60)
	p := palCtx
	for rep := 0; rep < reps; rep++ {
		for _, rootKind := range ctxKinds {
			for _, dim := range familyDims {
				for _, body := range familyBodies {
					f := p.buildFamily(r, rootKind, dim, body)
					gd := p.gdef(r)
					adv := body[0] == 'p'
					var hist [][]G
					for _, s := range p.famHistory(r) {
						hist = append(hist, gidsToSeq(s, adv))
					}
					labels := []string{"stream:stale-state", "stale-dim:" + dim, "stale-root:" + rootKind, "stale-body:" + body}
					emit(run, &Case{LL: f.LL, Gdef: gd, Lookups: f.Roots, Hist: hist}, labels...)
					if r.Bool() { // the other order of the same calls
						emit(run, &Case{LL: f.LL, Gdef: gd, Lookups: f.Roots, Hist: reversed(hist)}, append(labels, "stale:reversed")...)
					}
				}
			}
		}
	}
}

// staleDirected: minimal hand-written members of the families (corpus/C07/stale-*.txt).
func staleDirected() []*Case {
	one := func(g ...int) []G { return gidsToSeq(g, false) }
	p := palCtx
	gd := &Gdef{HasClass: true,
		Class:  []KV{{1, 1}, {2, 1}, {3, 1}, {4, 1}, {5, 1}, {10, 3}, {11, 3}, {12, 3}, {20, 2}},
		Attach: []KV{{10, 1}, {11, 2}, {12, 3}},
		Sets:   [][]int{{10}, {11}, {12}}}
	var out []*Case
	lig := func() []*Sub {
		return []*Sub{{Kind: "g41", Cov: []KV{{1, 0}, {2, 1}}, Ligs: [][]Lig{{{In: []int{4}, Out: 40}}, {{In: []int{4}, Out: 41}}}}}
	}
	// (1) SeqContext1 root ignoring marks; ligature children with the same
	// flag word and mark filtering sets 0 / 1; the other child first, across
	// calls and inside one sequence, in both orders
	ll1 := []*Lookup{
		{Flags: 8, Subs: p.ctxBuild("sc1", []hrule{
			{In: [][]int{{1}, {4}}, Acts: []Act{{0, 1}}},
			{In: [][]int{{2}, {4}}, Acts: []Act{{0, 2}}}})},
		{Flags: 0x10, MFS: 0, Subs: lig()},
		{Flags: 0x10, MFS: 1, Subs: lig()},
	}
	out = append(out,
		&Case{LL: ll1, Gdef: gd, Lookups: []int{0}, Hist: [][]G{one(2, 4), one(1, 11, 4), one(2, 10, 4), one(1, 10, 4), one(2, 11, 4)}},
		&Case{LL: ll1, Gdef: gd, Lookups: []int{0}, Hist: [][]G{one(1, 11, 4), one(2, 4), one(1, 11, 4, 2, 10, 4), one(2, 10, 4, 1, 11, 4)}})
	// (2) ChainedSeqContext3 root, pair-adjustment children that differ only in the attachment type
	pair := func() []*Sub {
		return []*Sub{{Kind: "p21", Pairs: []PairEnt{
			{1, 4, &VR{0, 0, 10, 0, 0, 0, 0, 0}, &VR{5, 0, 0, 0, 0, 0, 0, 0}},
			{2, 4, &VR{0, 0, 20, 0, 0, 0, 0, 0}, nil},
			{1, 11, &VR{1, 1, 1, 0, 0, 0, 0, 0}, nil}}}}
	}
	ll2 := []*Lookup{
		{Flags: 8, Subs: p.ctxBuild("cc3", []hrule{
			{In: [][]int{{1}, {4}}, Acts: []Act{{0, 1}}},
			{In: [][]int{{2}, {4}}, Acts: []Act{{0, 2}}}})},
		{Flags: 0x100, Subs: pair()},
		{Flags: 0x200, Subs: pair()},
	}
	out = append(out, &Case{LL: ll2, Gdef: gd, Lookups: []int{0},
		Hist: [][]G{one(2, 10, 4), one(1, 11, 4), one(2, 11, 4), one(1, 10, 4, 2, 10, 4), one(2, 11, 4, 1, 11, 4)}})
	// (3) SeqContext2 root; contextual children (SeqContext3 -> single
	// substitution) sharing the filtering set and differing in the flags only
	inc := &Lookup{Subs: []*Sub{{Kind: "g11", Set: p.all(), Delta: 100}}}
	kid := func() []*Sub {
		return p.ctxBuild("sc3", []hrule{{In: [][]int{{1, 2}, {4}}, Acts: []Act{{1, 3}}}})
	}
	ll3 := []*Lookup{
		{Flags: 8, Subs: p.ctxBuild("sc2", []hrule{
			{In: [][]int{{1}, {4}}, Acts: []Act{{0, 1}}},
			{In: [][]int{{2}, {4}}, Acts: []Act{{0, 2}}}})},
		{Flags: 0x10, MFS: 1, Subs: kid()},
		{Flags: 0x08, MFS: 1, Subs: kid()},
		inc,
	}
	out = append(out, &Case{LL: ll3, Gdef: gd, Lookups: []int{0},
		Hist: [][]G{one(2, 11, 4), one(1, 11, 4), one(2, 11, 4), one(1, 10, 4), one(1, 11, 4, 2, 11, 4)}})
	// (4) ChainedSeqContext1 root without flags matching "F mark X"; the child
	// acts on the mark itself (the keep test of the nested action)
	ll4 := []*Lookup{
		{Subs: p.ctxBuild("cc1", []hrule{
			{In: [][]int{{1}, {10, 11, 12}, {4}}, Acts: []Act{{1, 1}}},
			{In: [][]int{{2}, {10, 11, 12}, {4}}, Acts: []Act{{1, 2}}}})},
		{Flags: 0x10, MFS: 2, Subs: []*Sub{{Kind: "g11", Set: []int{10, 11, 12}, Delta: 100}}},
		{Flags: 0x10, MFS: 0, Subs: []*Sub{{Kind: "g11", Set: []int{10, 11, 12}, Delta: 100}}},
	}
	out = append(out, &Case{LL: ll4, Gdef: gd, Lookups: []int{0},
		Hist: [][]G{one(1, 12, 4), one(2, 12, 4), one(2, 10, 4), one(1, 10, 4), one(2, 12, 4, 1, 12, 4)}})
	// (5) ChainedSeqContext2 root with one lookup per selector, children
	// ChainedSeqContext1 invoked at X with the selector as backtrack context
	// (the backward scan skips marks according to the child's flags)
	kidB := func() []*Sub {
		return p.ctxBuild("cc1", []hrule{
			{Back: [][]int{{1}}, In: [][]int{{4}}, Acts: []Act{{0, 4}}},
			{Back: [][]int{{2}}, In: [][]int{{4}}, Acts: []Act{{0, 4}}}})
	}
	ll5 := []*Lookup{
		{Flags: 8, Subs: p.ctxBuild("cc2", []hrule{{In: [][]int{{1}, {4}}, Acts: []Act{{1, 2}}}})},
		{Flags: 8, Subs: p.ctxBuild("cc2", []hrule{{In: [][]int{{2}, {4}}, Acts: []Act{{1, 3}}}})},
		{Flags: 0x110, MFS: 0, Subs: kidB()},
		{Flags: 0x110, MFS: 2, Subs: kidB()},
		inc,
	}
	out = append(out, &Case{LL: ll5, Gdef: gd, Lookups: []int{1, 0},
		Hist: [][]G{one(2, 12, 4, 1, 12, 4), one(1, 12, 4), one(2, 12, 4), one(1, 10, 4, 2, 10, 4)}})
	// (6) depth 2: the root frame (ignoring marks, input positions 0 and 2)
	// sees a ligature of the grandchild that starts on the skipped mark and
	// ends on its second input glyph (fixStackMerge: merged glyph in front of
	// an input position; merge position inserted)
	ll6 := []*Lookup{
		{Flags: 8, Subs: p.ctxBuild("sc1", []hrule{{In: [][]int{{1}, {4}}, Acts: []Act{{0, 1}, {1, 3}, {0, 3}}}})},
		{Subs: p.ctxBuild("sc3", []hrule{{In: [][]int{{1}, {10, 11}, {4}}, Acts: []Act{{1, 2}}}})},
		{Subs: []*Sub{{Kind: "g41", Cov: []KV{{10, 0}, {11, 1}}, Ligs: [][]Lig{{{In: []int{4}, Out: 42}}, {{In: []int{4}, Out: 43}}}}}},
		inc,
	}
	out = append(out, &Case{LL: ll6, Gdef: gd, Lookups: []int{0},
		Hist: [][]G{one(1, 10, 4, 5), one(1, 11, 4, 1, 10, 4), one(1, 12, 4), one(1, 10, 4)}})
	return out
}

// StaleDirectedLines returns the case lines of staleDirected (corpus/C07/stale-*.txt).
func StaleDirectedLines() []string {
	var out []string
	for _, c := range staleDirected() {
		out = append(out, c.Line())
	}
	return out
}
