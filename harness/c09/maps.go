package c09

import (
	"fmt"
	"sort"

	"seehuhn.de/go/sfnt/verifharness/vlib"
)

// gmap is a character map code -> glyph id (the canonical form of the Go maps
// cmap.Format4 / cmap.Format12).
type gmap map[uint32]uint16

func (m gmap) keys() []uint32 {
	ks := make([]uint32, 0, len(m))
	for k := range m {
		ks = append(ks, k)
	}
	sort.Slice(ks, func(i, j int) bool { return ks[i] < ks[j] })
	return ks
}

func (m gmap) sx() vlib.Sx {
	ks := m.keys()
	l := make(vlib.List, len(ks))
	for i, k := range ks {
		l[i] = vlib.L(vlib.U64(uint64(k)), vlib.Int(int(m[k])))
	}
	return l
}

func parseGmap(x vlib.Sx) (gmap, error) {
	l, err := vlib.AsList(x)
	if err != nil {
		return nil, err
	}
	m := gmap{}
	for _, p := range l {
		pr, err := vlib.AsList(p)
		if err != nil || len(pr) != 2 {
			return nil, fmt.Errorf("bad map entry")
		}
		k, err := vlib.AsI64(pr[0])
		if err != nil {
			return nil, err
		}
		g, err := vlib.AsInt(pr[1])
		if err != nil {
			return nil, err
		}
		if k < 0 || k > 0xFFFFFFFF || g < 0 || g > 0xFFFF {
			return nil, fmt.Errorf("map entry out of range")
		}
		m[uint32(k)] = uint16(g)
	}
	return m, nil
}

// A density class fills part of the code space [lo, hi] of a map.
type mapClass struct {
	name string
	fill func(r *vlib.Rand, m gmap, lo, hi uint32)
}

func clampAdd(a uint32, d int, hi uint32) uint32 {
	v := uint64(a) + uint64(d)
	if v > uint64(hi) {
		return hi
	}
	return uint32(v)
}

var mapClasses = []mapClass{
	{"sparse", func(r *vlib.Rand, m gmap, lo, hi uint32) {
		n := r.Range(1, 60)
		for i := 0; i < n; i++ {
			m[lo+uint32(r.Intn(int(hi-lo+1)))] = uint16(r.Range(1, 65535))
		}
	}},
	{"dense-runs", func(r *vlib.Rand, m gmap, lo, hi uint32) {
		c := lo
		for c <= hi && r.Chance(9, 10) {
			c = clampAdd(c, r.Intn(40), hi)
			l := r.Range(1, 120)
			g := uint16(r.Range(1, 65000))
			for i := 0; i < l && c <= hi; i++ {
				m[c] = g
				g++
				if c == hi {
					return
				}
				c++
			}
		}
	}},
	{"alt-gaps", func(r *vlib.Rand, m gmap, lo, hi uint32) {
		// runs of 1..6 mapped codes separated by gaps of 1..6, three flavours:
		// glyph ids consecutive across gaps, same delta across gaps, random
		flavour := r.Intn(3)
		gap := r.Range(1, 6)
		runLen := r.Range(1, 6)
		vary := r.Bool()
		g := uint16(r.Range(1, 60000))
		delta := uint16(r.Intn(65536))
		c := lo
		n := r.Range(3, 120)
		for i := 0; i < n && c <= hi; i++ {
			rl, gp := runLen, gap
			if vary {
				rl, gp = r.Range(1, 6), r.Range(1, 6)
			}
			for j := 0; j < rl && c <= hi; j++ {
				switch flavour {
				case 0:
					m[c] = g
					g++
				case 1:
					m[c] = uint16(c) + delta
				default:
					m[c] = uint16(r.Range(1, 65535))
				}
				if c == hi {
					return
				}
				c++
			}
			c = clampAdd(c, gp, hi)
			if c == hi {
				return
			}
		}
	}},
	{"identity", func(r *vlib.Rand, m gmap, lo, hi uint32) {
		l := uint32(r.Range(1, 400))
		off := uint16(0)
		if r.Bool() {
			off = uint16(r.Intn(65536))
		}
		for c := lo; c <= hi && c < lo+l; c++ {
			m[c] = uint16(c) + off
			if c == hi {
				break
			}
		}
	}},
	{"reversed", func(r *vlib.Rand, m gmap, lo, hi uint32) {
		l := uint32(r.Range(2, 200))
		g := uint16(r.Range(int(l)+1, 65535))
		for c := lo; c <= hi && c < lo+l; c++ {
			m[c] = g
			g--
			if c == hi {
				break
			}
		}
	}},
	{"gid-wrap", func(r *vlib.Rand, m gmap, lo, hi uint32) {
		// a run whose glyph ids pass 65535 -> 0 -> 1 ...
		before := r.Range(1, 8)
		after := r.Range(1, 8)
		g := uint16(65536 - before)
		c := lo
		for i := 0; i < before+after && c <= hi; i++ {
			m[c] = g // includes the explicit value 0 right after 65535
			g++
			if c == hi {
				break
			}
			c++
		}
	}},
	{"noise", func(r *vlib.Rand, m gmap, lo, hi uint32) {
		// every code of a window is unmapped, on one of two deltas, or random:
		// exercises the numDelta/numNotdef counters of AppendEdges
		l := uint32(r.Range(5, 80))
		d1, d2 := uint16(r.Intn(65536)), uint16(r.Intn(65536))
		pz := r.Range(1, 5)
		for c := lo; c <= hi && c < lo+l; c++ {
			switch k := r.Intn(8); {
			case k < pz:
			case k < 6:
				m[c] = uint16(c) + d1
			case k < 7:
				m[c] = uint16(c) + d2
			default:
				m[c] = uint16(r.Intn(65536))
			}
			if c == hi {
				break
			}
		}
	}},
	{"values-block", func(r *vlib.Rand, m gmap, lo, hi uint32) {
		// consecutive codes with unrelated glyph ids: one explicit-value segment
		l := uint32(r.Range(4, 300))
		for c := lo; c <= hi && c < lo+l; c++ {
			m[c] = uint16(r.Range(1, 65535))
			if c == hi {
				break
			}
		}
	}},
}

// randomMap composes 1..4 classes on random sub-ranges of [0, top].
func randomMap(r *vlib.Rand, top uint32) (gmap, []string) {
	m := gmap{}
	var labels []string
	n := r.Range(1, 4)
	for i := 0; i < n; i++ {
		cl := vlib.Pick(r, mapClasses)
		var lo uint32
		switch r.Intn(6) {
		case 0:
			lo = 0
		case 1:
			// close to the end of the code space
			back := uint32(r.Intn(40))
			if back > top {
				back = top
			}
			lo = top - back
		case 2:
			if top >= 0xFFFF {
				lo = 0xFFFF - uint32(r.Intn(12))
			}
		default:
			lo = uint32(r.Uint64() % (uint64(top) + 1))
		}
		cl.fill(r, m, lo, top)
		labels = append(labels, "class:"+cl.name)
	}
	return m, labels
}

// endOfSpace produces the boundary patterns around code 0xFFFF.
func endOfSpaceMaps(r *vlib.Rand) []gmap {
	var out []gmap
	// every subset pattern of the last 5 codes with three glyph flavours
	for mask := 0; mask < 32; mask++ {
		for fl := 0; fl < 3; fl++ {
			m := gmap{}
			for i := 0; i < 5; i++ {
				if mask&(1<<i) == 0 {
					continue
				}
				c := uint32(0xFFFB + i)
				switch fl {
				case 0:
					m[c] = uint16(10 + i)
				case 1:
					m[c] = uint16(r.Range(1, 65535))
				default:
					m[c] = uint16(c) + 7 // wraps: 0xFFFF+7 = 6
				}
			}
			out = append(out, m)
		}
	}
	return out
}
