package c09

import (
	"encoding/binary"
	"fmt"
	"sort"

	"golang.org/x/image/font/gofont/goregular"
	xsfnt "golang.org/x/image/font/sfnt"

	"seehuhn.de/go/sfnt/cmap"
)

// A third-party reader: golang.org/x/image/font/sfnt parses a complete font
// (Go Regular) whose cmap table has been replaced by the table under test and
// answers GlyphIndex queries.  (x/image truncates glyph ids to 16 bits and
// does not add idDelta to glyphIdArray values, so it is a cross-check for the
// encoder's output, not the specification oracle.)

type sfntTable struct {
	tag  string
	data []byte
}

func splitFont(src []byte) (scaler uint32, tables []sfntTable, ok bool) {
	if len(src) < 12 {
		return 0, nil, false
	}
	scaler = binary.BigEndian.Uint32(src)
	n := int(binary.BigEndian.Uint16(src[4:]))
	if len(src) < 12+16*n {
		return 0, nil, false
	}
	for i := 0; i < n; i++ {
		rec := src[12+16*i:]
		off := binary.BigEndian.Uint32(rec[8:])
		l := binary.BigEndian.Uint32(rec[12:])
		if uint64(off)+uint64(l) > uint64(len(src)) {
			return 0, nil, false
		}
		tables = append(tables, sfntTable{string(rec[:4]), src[off : off+l]})
	}
	return scaler, tables, true
}

func joinFont(scaler uint32, tables []sfntTable) []byte {
	sort.Slice(tables, func(i, j int) bool { return tables[i].tag < tables[j].tag })
	n := len(tables)
	out := make([]byte, 12+16*n)
	binary.BigEndian.PutUint32(out, scaler)
	binary.BigEndian.PutUint16(out[4:], uint16(n))
	sel := 0
	for (1 << (sel + 1)) <= n {
		sel++
	}
	binary.BigEndian.PutUint16(out[6:], uint16(16<<sel))
	binary.BigEndian.PutUint16(out[8:], uint16(sel))
	binary.BigEndian.PutUint16(out[10:], uint16(16*n-(16<<sel)))
	for i, t := range tables {
		off := len(out)
		out = append(out, t.data...)
		for len(out)%4 != 0 {
			out = append(out, 0)
		}
		rec := out[12+16*i:]
		copy(rec, t.tag)
		binary.BigEndian.PutUint32(rec[8:], uint32(off))
		binary.BigEndian.PutUint32(rec[12:], uint32(len(t.data)))
	}
	return out
}

var goRegular struct {
	scaler uint32
	tables []sfntTable
	ok     bool
	done   bool
}

// xLookup wraps the subtable into a cmap table under the given key (through
// the library's Table.Encode), puts it into Go Regular and returns the
// third-party lookup function.
func xLookup(key cmap.Key, sub []byte) (func(c uint32) (uint16, error), error) {
	if !goRegular.done {
		goRegular.scaler, goRegular.tables, goRegular.ok = splitFont(goregular.TTF)
		goRegular.done = true
	}
	if !goRegular.ok {
		return nil, fmt.Errorf("cannot split the Go Regular font")
	}
	tbl := cmap.Table{key: sub}.Encode()
	var tables []sfntTable
	for _, t := range goRegular.tables {
		if t.tag == "cmap" {
			tables = append(tables, sfntTable{"cmap", tbl})
		} else {
			tables = append(tables, t)
		}
	}
	f, err := xsfnt.Parse(joinFont(goRegular.scaler, tables))
	if err != nil {
		return nil, err
	}
	var buf xsfnt.Buffer
	return func(c uint32) (uint16, error) {
		g, err := f.GlyphIndex(&buf, rune(int32(c)))
		return uint16(g), err
	}, nil
}
