package c09

import (
	"fmt"
	"sort"

	"seehuhn.de/go/sfnt/cmap"
	"seehuhn.de/go/sfnt/glyph"
	"seehuhn.de/go/sfnt/verifharness/vlib"
)

func init() {
	handlers["enc12"] = doEnc12
	handlers["dec12"] = doDec12
	handlers["look12"] = doLook12
}

func toFormat12(m gmap) cmap.Format12 {
	out := cmap.Format12{}
	for k, v := range m {
		out[k] = glyph.ID(v)
	}
	return out
}

// probes12 returns the code points at which a map is queried: every key, its
// neighbours, fixed boundary codes.
func probes(m gmap, top uint32) []uint32 {
	seen := map[uint32]bool{}
	var out []uint32
	add := func(c uint32) {
		if c <= top && !seen[c] {
			seen[c] = true
			out = append(out, c)
		}
	}
	for _, c := range []uint32{0, 1, 0x7F, 0x80, 0xFF, 0x100, 0xFFFB, 0xFFFC, 0xFFFD, 0xFFFE, 0xFFFF, 0x10000, 0x10001, 0x10FFFE, 0x10FFFF, 0x110000, 0xFFFFFFFE, 0xFFFFFFFF} {
		add(c)
	}
	for k := range m {
		add(k)
		if k > 0 {
			add(k - 1)
		}
		if k < 0xFFFFFFFF {
			add(k + 1)
		}
	}
	sort.Slice(out, func(i, j int) bool { return out[i] < out[j] })
	return out
}

// enc12 LANG MAP : Format12.Encode
func doEnc12(args []vlib.Sx) (res result, err error) {
	if len(args) != 2 {
		return res, fmt.Errorf("enc12: want 2 arguments")
	}
	lang, err := vlib.AsInt(args[0])
	if err != nil {
		return res, err
	}
	m, err := parseGmap(args[1])
	if err != nil {
		return res, err
	}
	var b []byte
	if p, msg := guard(func() { b = toFormat12(m).Encode(uint16(lang)) }); p {
		res.impl = "panic"
		res.fail = "Format12.Encode panicked: " + msg
		res.sig = "c09-enc12-panic"
		return res, nil
	}
	res.impl = vlib.Str(vlib.Hex(b))
	res.labels = append(res.labels, sizeLabel("entries12", len(m)))

	// --- oracle ---
	fail := func(f string, a ...any) {
		if res.fail == "" {
			res.fail = fmt.Sprintf(f, a...)
			res.sig = "c09-format12-encode"
		}
	}
	groups, ok := parseGroups12(b)
	if !ok {
		fail("encoded subtable is not a well-formed format 12 subtable (length %d)", len(b))
		return res, nil
	}
	res.nontrivial = len(groups) >= 2
	res.labels = append(res.labels, sizeLabel("groups12", len(groups)))
	// header: format 12, reserved 0, length, language
	if f, _ := u16at(b, 0); f != 12 {
		fail("format field %d", f)
	}
	if l, _ := u32at(b, 4); int(l) != len(b) {
		fail("length field %d, actual %d", l, len(b))
	}
	if l, _ := u32at(b, 8); l != uint32(lang) {
		fail("language field %d, want %d", l, lang)
	}
	// groups sorted, disjoint, inside 16-bit glyph range, minimal
	for i, g := range groups {
		if g.end < g.start {
			fail("group %d: end < start", i)
		}
		if uint64(g.gid)+uint64(g.end-g.start) > 0xFFFF {
			fail("group %d (%d..%d -> %d) runs past glyph id 65535", i, g.start, g.end, g.gid)
		}
		if i > 0 {
			p := groups[i-1]
			if g.start <= p.end {
				fail("groups %d and %d not sorted/disjoint", i-1, i)
			}
			if g.start == p.end+1 && g.gid == p.gid+(p.end-p.start)+1 {
				fail("groups %d and %d could be merged", i-1, i)
			}
		}
	}
	// the independent reader gives the map's glyph for every probed code
	for _, c := range probes(m, 0xFFFFFFFF) {
		g, def := specLookup12(b, c)
		if !def || g != uint32(m[c]) {
			fail("specification reader: code %d -> glyph %d (defined=%v), map has %d", c, g, def, m[c])
			break
		}
	}
	// a third-party reader (golang.org/x/image) on a font carrying the table
	if len(groups) <= 20000 {
		if look, err := xLookup(cmap.Key{PlatformID: 3, EncodingID: 10}, b); err != nil {
			fail("x/image rejects a font carrying the subtable: %v", err)
		} else {
			for _, c := range probes(m, 0xFFFFFFFF) {
				if g, err := look(c); err != nil || g != m[c] {
					fail("x/image GlyphIndex(%d) = %d (err=%v), map has %d", c, g, err, m[c])
					break
				}
			}
			res.labels = append(res.labels, "x/image-reader")
		}
	}
	// the library's own decoder returns the map
	_, hasMax := m[0xFFFFFFFF]
	var sub cmap.Subtable
	var derr error
	if p, msg := guard(func() { sub, derr = cmap.VerifC09DecodeFormat(12, b, nil) }); p {
		fail("decodeFormat12 panicked on Encode's output: %s", msg)
	} else if derr != nil {
		if hasMax || len(m) > 65536 {
			res.labels = append(res.labels, "outside-quantifier")
		} else {
			fail("decodeFormat12 rejects Encode's output: %v", derr)
		}
	} else {
		got := sub.(cmap.Format12)
		if len(got) != len(m) {
			fail("round trip: %d entries, want %d", len(got), len(m))
		}
		for k, v := range m {
			if gv, ok := got[k]; !ok || uint16(gv) != v {
				fail("round trip: code %d -> %d, want %d", k, gv, v)
				break
			}
		}
	}
	return res, nil
}

func pairsOf12(s cmap.Format12) vlib.List {
	ks := make([]uint32, 0, len(s))
	for k := range s {
		ks = append(ks, k)
	}
	sort.Slice(ks, func(i, j int) bool { return ks[i] < ks[j] })
	l := vlib.List{vlib.Atom("ok")}
	for _, k := range ks {
		l = append(l, vlib.L(vlib.U64(uint64(k)), vlib.Int(int(s[k]))))
	}
	return l
}

func macRune(code int) rune { return rune(code) } // placeholder, replaced where mac matters

// dec12 MAC BYTES : decodeFormat12
func doDec12(args []vlib.Sx) (res result, err error) {
	if len(args) != 2 {
		return res, fmt.Errorf("dec12: want 2 arguments")
	}
	mac, err := vlib.AsBool(args[0])
	if err != nil {
		return res, err
	}
	b, err := vlib.AsBytes(args[1])
	if err != nil {
		return res, err
	}
	var c2r func(int) rune
	if mac {
		c2r = macRune
	}
	var sub cmap.Subtable
	var derr error
	if p, msg := guard(func() { sub, derr = cmap.VerifC09DecodeFormat(12, b, c2r) }); p {
		res.impl = "panic"
		res.fail = "decodeFormat12 panicked: " + msg
		res.sig = "c09-decode-panic"
		return res, nil
	}
	if derr != nil {
		res.impl = "err"
		res.nontrivial = len(b) >= 16
		res.labels = append(res.labels, "dec12:err")
		return res, nil
	}
	got := sub.(cmap.Format12)
	res.impl = vlib.Str(pairsOf12(got))
	res.nontrivial = true
	res.labels = append(res.labels, "dec12:ok", sizeLabel("entries12", len(got)))
	// oracle: accepted tables decode to the mapping the specification defines
	if len(got) > 65536 {
		res.fail = fmt.Sprintf("decoder produced %d entries (> 65536)", len(got))
		res.sig = "c09-format12-decode"
	}
	m := gmap{}
	for k, v := range got {
		m[k] = uint16(v)
	}
	for _, c := range probes(m, 0xFFFFFFFF) {
		g, def := specLookup12(b, c)
		if !def || g != uint32(got[c]) {
			res.fail = fmt.Sprintf("accepted table: specification reader gives code %d -> glyph %d (defined=%v), decoder gives %d", c, g, def, got[c])
			res.sig = "c09-format12-decode"
			break
		}
	}
	return res, nil
}

// look12 BYTES (codes) : lookups through the library on a subtable, compared
// with S_lookup12 of the model
func doLook12(args []vlib.Sx) (res result, err error) {
	if len(args) != 2 {
		return res, fmt.Errorf("look12: want 2 arguments")
	}
	b, err := vlib.AsBytes(args[0])
	if err != nil {
		return res, err
	}
	cs, err := vlib.AsList(args[1])
	if err != nil {
		return res, err
	}
	var sub cmap.Subtable
	var derr error
	if p, msg := guard(func() { sub, derr = cmap.VerifC09DecodeFormat(12, b, nil) }); p {
		res.impl = "panic"
		res.fail = "decodeFormat12 panicked: " + msg
		res.sig = "c09-decode-panic"
		return res, nil
	}
	if derr != nil {
		res.impl = "err"
		return res, nil
	}
	out := vlib.List{}
	for _, x := range cs {
		c, err := vlib.AsI64(x)
		if err != nil {
			return res, err
		}
		g := sub.Lookup(rune(uint32(c)))
		out = append(out, vlib.Int(int(g)))
		sg, def := specLookup12(b, uint32(c))
		if (!def || sg != uint32(g)) && res.fail == "" {
			res.fail = fmt.Sprintf("Lookup(%d) = %d, specification reader %d (defined=%v)", c, g, sg, def)
			res.sig = "c09-format12-lookup"
		}
	}
	res.impl = vlib.Str(out)
	res.nontrivial = len(cs) > 0
	return res, nil
}

func mutate(r *vlib.Rand, b []byte) []byte {
	out := append([]byte(nil), b...)
	if len(out) == 0 {
		return out
	}
	n := r.Range(1, 3)
	for i := 0; i < n; i++ {
		p := r.Intn(len(out))
		switch r.Intn(4) {
		case 0:
			out[p] ^= 1 << uint(r.Intn(8))
		case 1:
			out[p] = byte(r.Uint64())
		case 2:
			out[p] = 0xFF
		default:
			out[p] = 0
		}
	}
	return out
}

func be32(v uint32) []byte { return []byte{byte(v >> 24), byte(v >> 16), byte(v >> 8), byte(v)} }
func be16(v uint16) []byte { return []byte{byte(v >> 8), byte(v)} }

// table12 builds a format 12 subtable from explicit groups (also invalid ones).
func table12(lang uint16, groups []group12, declared int) []byte {
	b := []byte{0, 12, 0, 0}
	b = append(b, be32(uint32(16+12*len(groups)))...)
	b = append(b, 0, 0)
	b = append(b, be16(lang)...)
	b = append(b, be32(uint32(declared))...)
	for _, g := range groups {
		b = append(b, be32(g.start)...)
		b = append(b, be32(g.end)...)
		b = append(b, be32(g.gid)...)
	}
	return b
}

func gen12(run *vlib.Run, r *vlib.Rand, tier string) {
	langs := []int{0, 1, 255, 256, 65535}
	line := func(m gmap, lang int) string {
		return vlib.Line(vlib.Atom("enc12"), vlib.Int(lang), m.sx())
	}
	var encoded [][]byte
	encAndKeep := func(m gmap, lang int, labels ...string) {
		res := emit(run, line(m, lang), labels...)
		if len(res.impl) > 0 && res.impl[0] == 'x' {
			b, _ := vlib.AsBytes(vlib.Atom(res.impl))
			if len(encoded) < 4000 {
				encoded = append(encoded, b)
			}
			// lookups on the encoder's output
			var cs vlib.List
			for _, c := range probes(m, 0xFFFFFFFF) {
				cs = append(cs, vlib.U64(uint64(c)))
				if len(cs) >= 60 {
					break
				}
			}
			emit(run, vlib.Line(vlib.Atom("look12"), vlib.Hex(b), cs), labels...)
		}
	}

	// boundary maps
	encAndKeep(gmap{}, 0, "boundary")
	encAndKeep(gmap{0: 0}, 0, "boundary")
	encAndKeep(gmap{0: 1}, 1, "boundary")
	encAndKeep(gmap{0x10FFFF: 65535}, 0, "boundary")
	encAndKeep(gmap{0xFFFFFFFE: 1}, 0, "boundary")
	encAndKeep(gmap{0xFFFFFFFE: 1, 0xFFFFFFFD: 0}, 0, "boundary")
	encAndKeep(gmap{10: 65535, 11: 0, 12: 1}, 0, "boundary", "gid-wrap")
	encAndKeep(gmap{10: 65534, 11: 65535}, 0, "boundary")
	encAndKeep(gmap{0xFFFF: 5, 0x10000: 6, 0x10001: 7}, 0, "boundary")
	encAndKeep(gmap{5: 0, 6: 0, 7: 0}, 0, "boundary") // explicit glyph 0 entries

	tops := []uint32{0xFFFF, 0x10FFFF, 0x10FFFF, 0x2FFFF, 0xFFFFFFFE}
	n := vlib.Count(tier, 300, 10000)
	for i := 0; i < n; i++ {
		m, labels := randomMap(r, vlib.Pick(r, tops))
		encAndKeep(m, vlib.Pick(r, langs), labels...)
	}

	// large maps: up to 65536 entries, and just above
	big := []int{65536}
	if tier == "thorough" {
		big = append(big, 40000, 65535, 65536, 65536)
	}
	for bi, sz := range big {
		m := gmap{}
		c := uint32(r.Intn(1000))
		g := uint16(1)
		for len(m) < sz {
			switch (bi + r.Intn(3)) % 3 {
			case 0: // long run
				l := r.Range(1, 3000)
				for j := 0; j < l && len(m) < sz; j++ {
					m[c] = g
					c++
					g++
				}
				c += uint32(r.Intn(3))
			case 1:
				m[c] = uint16(r.Intn(65536))
				c += uint32(r.Range(1, 2))
			default:
				m[c] = g
				g += 2
				c++
			}
		}
		encAndKeep(m, 0, "large")
	}
	{
		// 65537 entries: outside the quantifier, the decoder's cap rejects it
		m := gmap{}
		for c := uint32(0); c < 65537; c++ {
			m[0x20000+c] = uint16(c)
		}
		emit(run, "!"+line(m, 0), "large", "above-cap")
	}

	// decoder: valid, truncated, extended, mutated, adversarial
	dline := func(mac bool, b []byte) string {
		return vlib.Line(vlib.Atom("dec12"), vlib.Bool(mac), vlib.Hex(b))
	}
	nd := vlib.Count(tier, 600, 15000)
	for i := 0; i < nd && len(encoded) > 0; i++ {
		b := encoded[r.Intn(len(encoded))]
		if len(b) > 6000 {
			continue
		}
		switch r.Intn(8) {
		case 0:
			emit(run, dline(false, b), "valid")
		case 1:
			emit(run, dline(false, b[:r.Intn(len(b)+1)]), "truncated")
		case 2:
			emit(run, dline(false, append(append([]byte(nil), b...), r.Bytes(r.Range(1, 13))...)), "extended")
		case 3:
			emit(run, dline(r.Chance(1, 10), b), "valid")
		default:
			emit(run, dline(false, mutate(r, b)), "mutated")
		}
	}
	// adversarial group tables
	adv := [][]group12{
		{{5, 4, 1}},                               // end < start
		{{0, 0xFFFFFFFF, 0}},                      // end = 0xFFFFFFFF
		{{0, 0xFFFFFFFE, 2}},                      // glyph sum wraps in uint32
		{{0, 65535, 0}},                           // exactly 65536 entries
		{{0, 65536, 0}},                           // 65537 entries
		{{0, 65535, 0}, {65536, 65536, 0}},        // cap exceeded by the second group
		{{0, 0, 65535}},                           // largest glyph id
		{{0, 1, 65535}},                           // glyph id 65536 in range
		{{0, 0, 65536}},                           // glyph id > 16 bit
		{{0, 0, 0x10FFFF}},                        //
		{{0, 0, 0x110000}},                        //
		{{10, 20, 1}, {20, 30, 2}},                // overlap
		{{10, 20, 1}, {5, 6, 2}},                  // unsorted
		{{10, 20, 1}, {21, 30, 12}},               // mergeable but valid
		{{0x10FFFF, 0x10FFFF, 1}},                 //
		{{0xFFFFFFFE, 0xFFFFFFFE, 1}},             //
		{{1, 0xFFFF0000, 0xFFFF}},                 // huge range
		{{0, 65535, 0}, {65536, 0xFFFFFFFE, 0}},   // size wrap attempt
		{{0, 0, 0}, {1, 0xFFFFFFFE, 2}},           //
		{{0, 65534, 1}, {0x10000, 0x10000, 3}},    // 65536 entries in two groups
	}
	for _, gs := range adv {
		emit(run, dline(false, table12(0, gs, len(gs))), "adversarial")
		emit(run, dline(false, table12(0, gs, len(gs)+1)), "adversarial")
	}
	for _, cnt := range []int{0, 1, 1000000, 1000001, 0x7FFFFFFF, 0xFFFFFFFF, 0x15555556} {
		emit(run, dline(false, table12(0, nil, cnt)), "adversarial")
	}
	for l := 0; l <= 17; l++ {
		emit(run, dline(false, make([]byte, l)), "short")
	}
}
