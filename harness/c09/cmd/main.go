package main

import (
	"seehuhn.de/go/sfnt/verifharness/c09"
	"seehuhn.de/go/sfnt/verifharness/vlib"
)

func main() { vlib.Main(c09.Gen, c09.RunCase) }
