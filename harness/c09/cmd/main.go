package main

import (
	"os"
	"runtime/pprof"

	"seehuhn.de/go/sfnt/verifharness/c09"
	"seehuhn.de/go/sfnt/verifharness/vlib"
)

func main() {
	if p := os.Getenv("C09_CPUPROFILE"); p != "" {
		f, err := os.Create(p)
		if err == nil {
			_ = pprof.StartCPUProfile(f)
			defer pprof.StopCPUProfile()
		}
	}
	vlib.Main(c09.Gen, c09.RunCase)
}
