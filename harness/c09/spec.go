package c09

// Independent readers for cmap subtables, written from the OpenType
// specification text ("cmap — Character to Glyph Index Mapping Table"), not
// from the library and not from the Coq model.  They are the property oracle:
// "an independent specification-conforming decoder gives the same glyph for
// every code point".

func u16at(b []byte, off int) (uint16, bool) {
	if off < 0 || off+2 > len(b) {
		return 0, false
	}
	return uint16(b[off])<<8 | uint16(b[off+1]), true
}

func u32at(b []byte, off int) (uint32, bool) {
	if off < 0 || off+4 > len(b) {
		return 0, false
	}
	return uint32(b[off])<<24 | uint32(b[off+1])<<16 | uint32(b[off+2])<<8 | uint32(b[off+3]), true
}

// specLookup4 implements "Format 4: Segment mapping to delta values":
//
//	search for the first endCode >= c; if the corresponding startCode <= c use
//	idDelta/idRangeOffset, otherwise the missing glyph;  if idRangeOffset is
//	not 0:  glyphId = *(idRangeOffset[i]/2 + (c - startCode[i]) + &idRangeOffset[i]),
//	and if that value is not 0, idDelta[i] is added (modulo 65536);
//	if idRangeOffset is 0: glyphId = (c + idDelta[i]) modulo 65536.
//
// defined = false when the table is too short for an access the
// specification prescribes.
func specLookup4(b []byte, c uint16) (gid uint16, defined bool) {
	segX2, ok := u16at(b, 6)
	if !ok {
		return 0, false
	}
	segCount := int(segX2) / 2
	endOff := 14
	startOff := 16 + int(segX2)
	deltaOff := 16 + 2*int(segX2)
	rangeOff := 16 + 3*int(segX2)
	for i := 0; i < segCount; i++ {
		end, ok := u16at(b, endOff+2*i)
		if !ok {
			return 0, false
		}
		if end < c {
			continue
		}
		start, ok := u16at(b, startOff+2*i)
		if !ok {
			return 0, false
		}
		if start > c {
			return 0, true
		}
		delta, ok := u16at(b, deltaOff+2*i)
		if !ok {
			return 0, false
		}
		ro, ok := u16at(b, rangeOff+2*i)
		if !ok {
			return 0, false
		}
		if ro == 0 {
			return c + delta, true
		}
		addr := rangeOff + 2*i + 2*(int(ro)/2+int(c-start))
		g, ok := u16at(b, addr)
		if !ok {
			return 0, false
		}
		if g == 0 {
			return 0, true
		}
		return g + delta, true
	}
	return 0, true
}

// header4 returns the header fields of a format 4 subtable.
type header4 struct {
	format, length, language, segCountX2, searchRange, entrySelector, rangeShift uint16
}

func readHeader4(b []byte) (h header4, ok bool) {
	if len(b) < 14 {
		return h, false
	}
	f := func(i int) uint16 { v, _ := u16at(b, i); return v }
	return header4{f(0), f(2), f(4), f(6), f(8), f(10), f(12)}, true
}

// specHeader4 gives the values the specification prescribes for the search
// fields: searchRange = 2 * 2^floor(log2(segCount)), entrySelector =
// floor(log2(segCount)), rangeShift = 2*segCount - searchRange.
func specHeader4(segCount int) (searchRange, entrySelector, rangeShift int) {
	if segCount <= 0 {
		return 0, 0, 0
	}
	lg := 0
	for (1 << (lg + 1)) <= segCount {
		lg++
	}
	searchRange = 2 * (1 << lg)
	return searchRange, lg, 2*segCount - searchRange
}

// segment4 is one segment of a format 4 subtable as found in the bytes.
type segment4 struct {
	first, last, delta uint16
	useValues          bool
	rangeOffset        uint16
}

func parseSegments4(b []byte) ([]segment4, bool) {
	h, ok := readHeader4(b)
	if !ok || h.segCountX2%2 != 0 {
		return nil, false
	}
	n := int(h.segCountX2) / 2
	if 16+8*n > len(b) {
		return nil, false
	}
	out := make([]segment4, n)
	for i := 0; i < n; i++ {
		e, _ := u16at(b, 14+2*i)
		s, _ := u16at(b, 16+2*n+2*i)
		d, _ := u16at(b, 16+4*n+2*i)
		r, _ := u16at(b, 16+6*n+2*i)
		out[i] = segment4{first: s, last: e, delta: d, useValues: r != 0, rangeOffset: r}
	}
	return out, true
}

// specLookup12 implements "Format 12: Segmented coverage": sequential map
// groups (startCharCode, endCharCode, startGlyphID); the glyph of c in a group
// is startGlyphID + (c - startCharCode); codes in no group map to glyph 0.
// The result is not truncated to 16 bits.
func specLookup12(b []byte, c uint32) (gid uint32, defined bool) {
	n, ok := u32at(b, 12)
	if !ok {
		return 0, false
	}
	for i := 0; i < int(n); i++ {
		base := 16 + 12*i
		s, ok1 := u32at(b, base)
		e, ok2 := u32at(b, base+4)
		g, ok3 := u32at(b, base+8)
		if !ok1 || !ok2 || !ok3 {
			return 0, false
		}
		if s <= c && c <= e {
			return g + (c - s), true
		}
	}
	return 0, true
}

type group12 struct{ start, end, gid uint32 }

func parseGroups12(b []byte) ([]group12, bool) {
	n, ok := u32at(b, 12)
	if !ok || 16+12*int64(n) != int64(len(b)) {
		return nil, false
	}
	out := make([]group12, n)
	for i := range out {
		base := 16 + 12*i
		out[i].start, _ = u32at(b, base)
		out[i].end, _ = u32at(b, base+4)
		out[i].gid, _ = u32at(b, base+8)
	}
	return out, true
}

// specLookup0: "Format 0: Byte encoding table": glyphIdArray[256] after the
// 6-byte header.
func specLookup0(b []byte, c uint32) (uint16, bool) {
	if c > 255 {
		return 0, true
	}
	if 6+int(c) >= len(b) {
		return 0, false
	}
	return uint16(b[6+int(c)]), true
}

// specLookup6: "Format 6: Trimmed table mapping": firstCode, entryCount,
// glyphIdArray[entryCount]; codes outside [firstCode, firstCode+entryCount)
// map to glyph 0.
func specLookup6(b []byte, c uint32) (uint16, bool) {
	first, ok1 := u16at(b, 6)
	count, ok2 := u16at(b, 8)
	if !ok1 || !ok2 {
		return 0, false
	}
	if c < uint32(first) || c >= uint32(first)+uint32(count) {
		return 0, true
	}
	return u16at(b, 10+2*int(c-uint32(first)))
}
