package c09

import "seehuhn.de/go/sfnt/verifharness/vlib"

func genTable(run *vlib.Run, r *vlib.Rand, tier string) {}
