// Package c09 is the harness of property C09 (character maps).  Every case is
// one line "kind args..."; exec runs the implementation on it (through the
// public API or the VerifC09 hooks), renders the observation in the syntax the
// Coq model's driver prints, and evaluates the property oracle (independent
// specification readers, round trips, no panic).
package c09

import (
	"seehuhn.de/go/sfnt/cmap"
	"errors"
	"fmt"
	"strings"

	"seehuhn.de/go/sfnt/verifharness/vlib"
)

// result of executing one case line on the implementation
type result struct {
	impl       string
	fail       string // oracle failure ("" = property holds on this input)
	sig        string
	nontrivial bool
	labels     []string
}

type handler func(args []vlib.Sx) (result, error)

var handlers = map[string]handler{}

func exec(line string) (result, error) {
	line = strings.TrimPrefix(strings.TrimSpace(line), "!")
	items, err := vlib.Parse(line)
	if err != nil {
		return result{}, err
	}
	if len(items) == 0 {
		return result{}, errors.New("empty case")
	}
	kind, err := vlib.AsAtom(items[0])
	if err != nil {
		return result{}, err
	}
	h, ok := handlers[kind]
	if !ok {
		return result{}, fmt.Errorf("unknown case kind %q", kind)
	}
	res, err := h(items[1:])
	if err != nil {
		return res, err
	}
	res.labels = append(res.labels, "kind:"+kind)
	return res, nil
}

// RunCase re-executes one case line (corpus, replays).
func RunCase(line string) (impl, fail, sig string, err error) {
	res, err := exec(line)
	if err != nil {
		return "", "", "", err
	}
	return res.impl, res.fail, res.sig, nil
}

// emit executes a generated line and records it.
func emit(run *vlib.Run, line string, labels ...string) result {
	res, err := exec(line)
	if err != nil {
		// a generator bug: make it visible as an oracle failure
		idx := run.Add(line, "(harness-error)", false, "harness-error")
		run.Fail(idx, line, "harness could not execute its own case: "+err.Error(), "c09-harness-error")
		return res
	}
	idx := run.Add(line, res.impl, res.nontrivial, append(res.labels, labels...)...)
	if res.fail != "" {
		run.Fail(idx, line, res.fail, res.sig)
	}
	return res
}

// guard runs f and converts a panic into an observation.
func guard(f func()) (panicked bool, msg string) {
	defer func() {
		if e := recover(); e != nil {
			panicked = true
			msg = fmt.Sprint(e)
		}
	}()
	f()
	return
}

func sizeLabel(prefix string, n int) string {
	switch {
	case n == 0:
		return prefix + ":0"
	case n <= 4:
		return prefix + ":1-4"
	case n <= 32:
		return prefix + ":5-32"
	case n <= 256:
		return prefix + ":33-256"
	case n <= 4096:
		return prefix + ":257-4096"
	}
	return prefix + ":>4096"
}

// Gen writes the run for the given tier.
func Gen(run *vlib.Run, seed uint64, tier string) {
	run.Rule = "one case = one call of the implementation (Encode / decodeFormatN / AppendEdges / cmap.Decode / GetBest) with the model's observation; non-trivial = encoder cases with at least 2 segments or groups, decoder cases whose input passes the length checks, table cases with at least 2 records; distinct by case line"
	r := vlib.NewRand(seed)
	gen12(run, r.Fork("f12"), tier)
	gen4(run, r.Fork("f4"), tier)
	genSmall(run, r.Fork("f0f6"), tier)
	genTable(run, r.Fork("table"), tier)
	genLk4(run, r.Fork("lk4"), tier)
	genGetSub(run, r.Fork("getsub"), tier)
}


// beyondBMP states "glyph 0 for every unmapped code point" for the 16-bit
// subtable formats (0, 4, 6), whose specification defines no code above
// 0xFFFF: every supplementary code point p*0x10000+low, p = 1..16, must look
// up as glyph 0 - in particular those whose low 16 bits are a mapped code.
func beyondBMP(sub cmap.Subtable) string {
	lows := map[uint32]bool{0: true, 0x20: true, 0x41: true, 0xFF: true, 0x100: true, 0xFFFE: true, 0xFFFF: true}
	switch m := sub.(type) {
	case cmap.Format4:
		n := 0
		for c := range m {
			lows[uint32(c)] = true
			if n++; n >= 200 {
				break
			}
		}
	case *cmap.Format0:
		for c := uint32(0); c < 256; c++ {
			lows[c] = true
		}
	default:
		return ""
	}
	for low := range lows {
		for p := uint32(1); p <= 16; p++ {
			c := p<<16 | low
			if g := sub.Lookup(rune(c)); g != 0 {
				return fmt.Sprintf("Lookup(U+%X) = %d on a subtable of a 16-bit format, which defines no code above 0xFFFF (glyph %d is what code 0x%04X maps to)", c, g, sub.Lookup(rune(low)), low)
			}
		}
	}
	return ""
}
