package c09

import (
	"fmt"

	"seehuhn.de/go/sfnt/cmap"
	"seehuhn.de/go/sfnt/verifharness/vlib"
)

func init() {
	handlers["dec0"] = doDec0
	handlers["dec6"] = doDec6
}

// dec0 BYTES : decodeFormat0 (only reachable with at least 10 bytes through
// cmap.Decode; shorter inputs make the function itself panic, which the model
// mirrors)
func doDec0(args []vlib.Sx) (res result, err error) {
	if len(args) != 1 {
		return res, fmt.Errorf("dec0: want 1 argument")
	}
	b, err := vlib.AsBytes(args[0])
	if err != nil {
		return res, err
	}
	var sub cmap.Subtable
	var derr error
	if p, msg := guard(func() { sub, derr = cmap.VerifC09DecodeFormat(0, b, nil) }); p {
		res.impl = "panic"
		if len(b) >= 6 {
			res.fail = "decodeFormat0 panicked: " + msg
			res.sig = "c09-decode-panic"
		} else {
			res.labels = append(res.labels, "dec0:short-panic(unreachable-through-Decode)")
		}
		return res, nil
	}
	if derr != nil {
		res.impl = "err"
		res.labels = append(res.labels, "dec0:err")
		return res, nil
	}
	f0 := sub.(*cmap.Format0)
	res.impl = vlib.Str(vlib.L(vlib.Atom("ok"), vlib.Hex(f0.Data[:])))
	res.nontrivial = true
	res.labels = append(res.labels, "dec0:ok")
	if d := beyondBMP(f0); d != "" {
		res.fail, res.sig = d, "c09-lookup-beyond-bmp"
		return res, nil
	}
	for c := uint32(0); c < 300; c++ {
		g, def := specLookup0(b, c)
		if lib := sub.Lookup(rune(c)); !def || uint16(lib) != g {
			res.fail = fmt.Sprintf("format 0: Lookup(%d) = %d, specification reader %d (defined=%v)", c, lib, g, def)
			res.sig = "c09-format0-decode"
			break
		}
	}
	// re-encoding gives the same bytes
	lang, _ := u16at(b, 4)
	if enc := f0.Encode(lang); string(enc) != string(b) && b[0] == 0 && b[1] == 0 && b[2] == 1 && b[3] == 6 {
		res.fail = "format 0: Encode(decode(b)) differs from b"
		res.sig = "c09-format0-decode"
	}
	return res, nil
}

// dec6 MAC BYTES : decodeFormat6
func doDec6(args []vlib.Sx) (res result, err error) {
	if len(args) != 2 {
		return res, fmt.Errorf("dec6: want 2 arguments")
	}
	mac, err := vlib.AsBool(args[0])
	if err != nil {
		return res, err
	}
	if mac {
		return res, fmt.Errorf("dec6: mac not supported")
	}
	b, err := vlib.AsBytes(args[1])
	if err != nil {
		return res, err
	}
	var sub cmap.Subtable
	var derr error
	if p, msg := guard(func() { sub, derr = cmap.VerifC09DecodeFormat(6, b, nil) }); p {
		res.impl = "panic"
		res.fail = "decodeFormat6 panicked: " + msg
		res.sig = "c09-decode-panic"
		return res, nil
	}
	if derr != nil {
		res.impl = "err"
		res.nontrivial = len(b) >= 10
		res.labels = append(res.labels, "dec6:err")
		return res, nil
	}
	got := sub.(cmap.Format4)
	res.impl = vlib.Str(pairsOf4(got))
	res.nontrivial = true
	res.labels = append(res.labels, "dec6:ok", sizeLabel("entries6", len(got)))
	if d := beyondBMP(got); d != "" {
		res.fail, res.sig = d, "c09-lookup-beyond-bmp"
		return res, nil
	}
	// the specification's mapping; the tolerated excess 0x0000 at the end does
	// not change it
	for c := uint32(0); c <= 0xFFFF; c++ {
		g, def := specLookup6(b, c)
		if lib := uint16(got[uint16(c)]); !def || lib != g {
			res.fail = fmt.Sprintf("format 6: code %d -> %d, specification reader %d (defined=%v)", c, lib, g, def)
			res.sig = "c09-format6-decode"
			break
		}
	}
	return res, nil
}

func table6(lang uint16, first, count int, gids []uint16, extra []byte) []byte {
	b := []byte{0, 6}
	b = append(b, be16(uint16(10+2*len(gids)))...)
	b = append(b, be16(lang)...)
	b = append(b, be16(uint16(first))...)
	b = append(b, be16(uint16(count))...)
	for _, g := range gids {
		b = append(b, be16(g)...)
	}
	return append(b, extra...)
}

func genSmall(run *vlib.Run, r *vlib.Rand, tier string) {
	l0 := func(b []byte) string { return vlib.Line(vlib.Atom("dec0"), vlib.Hex(b)) }
	l6 := func(b []byte) string { return vlib.Line(vlib.Atom("dec6"), vlib.Bool(false), vlib.Hex(b)) }

	// format 0
	n0 := vlib.Count(tier, 60, 1500)
	for i := 0; i < n0; i++ {
		data := r.Bytes(256)
		if r.Chance(1, 4) {
			for j := range data {
				data[j] = byte(j)
			}
		}
		b := append([]byte{0, 0, 1, 6, byte(r.Intn(2)), byte(r.Intn(256))}, data...)
		switch r.Intn(6) {
		case 0:
			emit(run, l0(b[:r.Range(6, len(b))]), "truncated")
		case 1:
			emit(run, l0(append(b, r.Bytes(r.Range(1, 4))...)), "extended")
		case 2:
			emit(run, l0(mutate(r, b)), "mutated")
		default:
			emit(run, l0(b), "valid")
		}
	}
	for _, l := range []int{0, 1, 5, 6, 7, 10, 261, 262, 263} {
		emit(run, l0(make([]byte, l)), "short")
	}

	// format 6
	n6 := vlib.Count(tier, 300, 8000)
	for i := 0; i < n6; i++ {
		count := vlib.Pick(r, []int{0, 1, 2, 3, 10, 100, r.Intn(600)})
		first := vlib.Pick(r, []int{0, 1, 32, 255, 256, 65535 - count, 65536 - count, 65537 - count, 65535, r.Intn(65536)})
		if first < 0 {
			first = 0
		}
		gids := make([]uint16, count)
		for j := range gids {
			switch r.Intn(4) {
			case 0:
				gids[j] = 0
			default:
				gids[j] = uint16(r.Intn(65536))
			}
		}
		var b []byte
		label := "valid"
		switch r.Intn(10) {
		case 0:
			b = table6(0, first, count, gids, []byte{0, 0})
			label = "excess-0000"
		case 1:
			b = table6(0, first, count, gids, r.Bytes(2))
			label = "excess-other"
		case 2:
			b = table6(0, first, count+r.Range(1, 3), gids, nil)
			label = "count-too-large"
		case 3:
			b = table6(0, first, count, gids, nil)
			b = b[:r.Intn(len(b)+1)]
			label = "truncated"
		case 4:
			b = mutate(r, table6(0, first, count, gids, nil))
			label = "mutated"
		default:
			b = table6(uint16(r.Intn(3)), first, count, gids, nil)
		}
		if first+count > 65536 {
			label = "beyond-ffff"
		}
		emit(run, l6(b), label)
	}
	emit(run, l6(table6(0, 0xFFFF, 3, []uint16{1, 2, 3}, nil)), "beyond-ffff", "boundary")
	emit(run, l6(table6(0, 0xFFFF, 1, []uint16{1}, nil)), "boundary")
	emit(run, l6(table6(0, 0xFFFF, 2, []uint16{1, 2}, nil)), "beyond-ffff", "boundary")
	emit(run, l6(table6(0, 0, 0, nil, nil)), "boundary")
	emit(run, l6(table6(0, 0, 0, nil, []byte{0, 0})), "boundary")
	emit(run, l6(table6(0, 5, 1, []uint16{0}, nil)), "boundary") // ambiguity: 1 entry "0" vs 0 entries + excess
	{
		g := make([]uint16, 65535)
		for i := range g {
			g[i] = uint16(i + 1)
		}
		emit(run, l6(table6(0, 1, 65535, g, nil)), "boundary", "large")
		emit(run, l6(table6(0, 0, 65535, g, []byte{0, 0})), "boundary", "large")
	}
	for l := 0; l <= 13; l++ {
		emit(run, l6(make([]byte, l)), "short")
	}
}
