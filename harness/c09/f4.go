package c09

import (
	"fmt"
	"sort"
	"strings"

	"seehuhn.de/go/sfnt/cmap"
	"seehuhn.de/go/sfnt/glyph"
	"seehuhn.de/go/sfnt/verifharness/vlib"
)

func init() {
	handlers["edges4"] = doEdges4
	handlers["emit4"] = doEmit4
	handlers["dec4"] = doDec4
	handlers["look4"] = doLook4
}

func toFormat4(m gmap) cmap.Format4 {
	out := cmap.Format4{}
	for k, v := range m {
		out[uint16(k)] = glyph.ID(v)
	}
	return out
}

func toGoMap(m gmap) map[uint16]glyph.ID { return map[uint16]glyph.ID(toFormat4(m)) }

func segSx(first, last, delta uint16, uv bool) vlib.Sx {
	return vlib.L(vlib.Int(int(first)), vlib.Int(int(last)), vlib.Int(int(delta)), vlib.Bool(uv))
}

func check16(m gmap) error {
	for k := range m {
		if k > 0xFFFF {
			return fmt.Errorf("format 4 map with code %d", k)
		}
	}
	return nil
}

// edges4 MAP (v ...) : makeSegments.AppendEdges at the given vertices
func doEdges4(args []vlib.Sx) (res result, err error) {
	if len(args) != 2 {
		return res, fmt.Errorf("edges4: want 2 arguments")
	}
	m, err := parseGmap(args[0])
	if err != nil {
		return res, err
	}
	if err := check16(m); err != nil {
		return res, err
	}
	vs, err := vlib.AsList(args[1])
	if err != nil {
		return res, err
	}
	gm := toGoMap(m)
	out := vlib.List{}
	fail := func(f string, a ...any) {
		if res.fail == "" {
			res.fail = fmt.Sprintf(f, a...)
			res.sig = "c09-format4-edges"
		}
	}
	for _, x := range vs {
		v64, err := vlib.AsI64(x)
		if err != nil {
			return res, err
		}
		v := uint32(v64)
		var edges []cmap.VerifC09Segment
		if p, msg := guard(func() { edges = cmap.VerifC09AppendEdges(gm, v) }); p {
			res.impl = "panic"
			res.fail = "AppendEdges panicked: " + msg
			res.sig = "c09-format4-edges"
			return res, nil
		}
		l := vlib.List{}
		for _, e := range edges {
			l = append(l, segSx(e.First, e.Last, e.Delta, e.UseValues))
			if e.UseValues {
				res.nontrivial = true
			}
		}
		out = append(out, l)
		// oracle: the graph is usable and every edge is a correct segment
		if v <= 0xFFFF && len(edges) == 0 {
			fail("vertex %d has no outgoing edge", v)
		}
		if v > 0xFFFF && len(edges) != 0 {
			fail("vertex %d beyond the code space has edges", v)
		}
		for _, e := range edges {
			if uint32(e.First) < v || e.Last < e.First || cmap.VerifC09EdgeTo(gm, e) <= v {
				fail("vertex %d: edge %v makes no progress", v, e)
			}
			for c := v; c < uint32(e.First); c++ {
				if m[c] != 0 {
					fail("vertex %d: edge %v skips mapped code %d", v, e, c)
					break
				}
			}
			if !e.UseValues {
				for c := uint32(e.First); c <= uint32(e.Last); c++ {
					if uint16(c)+e.Delta != m[c] {
						fail("vertex %d: delta edge %v wrong at code %d (map has %d)", v, e, c, m[c])
						break
					}
				}
			} else if e.Delta != 0 {
				fail("vertex %d: explicit-value edge %v with non-zero delta", v, e)
			}
		}
	}
	res.impl = vlib.Str(out)
	res.labels = append(res.labels, sizeLabel("entries4", len(m)))
	return res, nil
}

// minSize4 computes, from the hook's edges alone, the size in bytes of the
// smallest format 4 subtable (dynamic programming over the acyclic graph), and
// the vertices reachable from 0.
var minCache struct {
	key   string
	size  int
	verts []uint32
}

func minSize4(gm map[uint16]glyph.ID) (size int, vertices []uint32) {
	key := fmt.Sprint(len(gm), ":")
	{
		ks := make([]int, 0, len(gm))
		for k := range gm {
			ks = append(ks, int(k))
		}
		sort.Ints(ks)
		var sb strings.Builder
		for _, k := range ks {
			fmt.Fprintf(&sb, "%d=%d,", k, gm[uint16(k)])
		}
		key += sb.String()
	}
	if minCache.key == key {
		return minCache.size, minCache.verts
	}
	size, vertices = minSize4u(gm)
	minCache.key, minCache.size, minCache.verts = key, size, vertices
	return size, vertices
}

func minSize4u(gm map[uint16]glyph.ID) (size int, vertices []uint32) {
	best := map[uint32]int{0: 0}
	var order []uint32
	todo := []uint32{0}
	seen := map[uint32]bool{0: true}
	// vertices are processed in increasing order (all edges go forward)
	for len(todo) > 0 {
		sort.Slice(todo, func(i, j int) bool { return todo[i] < todo[j] })
		v := todo[0]
		todo = todo[1:]
		order = append(order, v)
		if v > 0xFFFF {
			continue
		}
		for _, e := range cmap.VerifC09AppendEdges(gm, v) {
			to := cmap.VerifC09EdgeTo(gm, e)
			if to <= v {
				return -1, order // no progress: reported by the edge oracle
			}
			c := best[v] + cmap.VerifC09EdgeLength(gm, e)
			if old, ok := best[to]; !ok || c < old {
				best[to] = c
			}
			if !seen[to] {
				seen[to] = true
				todo = append(todo, to)
			}
		}
	}
	words, ok := best[0x10000]
	if !ok {
		return -1, order
	}
	return 2 * (8 + words), order
}

func parseSegList(x vlib.Sx) ([]segment4, error) {
	l, err := vlib.AsList(x)
	if err != nil {
		return nil, err
	}
	var out []segment4
	for _, y := range l {
		f, err := vlib.AsInts(y)
		if err != nil || len(f) != 4 {
			return nil, fmt.Errorf("bad segment")
		}
		out = append(out, segment4{first: uint16(f[0]), last: uint16(f[1]), delta: uint16(f[2]), useValues: f[3] != 0})
	}
	return out, nil
}

// emit4 LANG MAP SEGS : Format4.Encode; SEGS (the segmentation found in the
// output when the case was generated) is the model's input only
func doEmit4(args []vlib.Sx) (res result, err error) {
	if len(args) != 3 {
		return res, fmt.Errorf("emit4: want 3 arguments")
	}
	lang, err := vlib.AsInt(args[0])
	if err != nil {
		return res, err
	}
	m, err := parseGmap(args[1])
	if err != nil {
		return res, err
	}
	if err := check16(m); err != nil {
		return res, err
	}
	_, r := encode4(m, lang)
	return r, nil
}

var encCache struct {
	key string
	b   []byte
	res result
}

// encode4 runs Format4.Encode and the oracle on its output (the last result is
// remembered: the generator needs the output to write the case line, and
// executing the line asks for it again).
func encode4(m gmap, lang int) (b []byte, res result) {
	key := fmt.Sprint(lang, " ", vlib.Str(m.sx()))
	if encCache.key == key {
		r := encCache.res
		r.labels = append([]string(nil), r.labels...)
		return encCache.b, r
	}
	b, res = encode4u(m, lang)
	encCache.key, encCache.b, encCache.res = key, b, res
	res.labels = append([]string(nil), res.labels...)
	return b, res
}

func encode4u(m gmap, lang int) (b []byte, res result) {
	gm := toGoMap(m)
	res.labels = append(res.labels, sizeLabel("entries4", len(m)))
	min, _ := minSize4(gm)
	fits := min >= 0 && min <= 65535
	if fits {
		res.labels = append(res.labels, "fits64k")
		if min > 60000 {
			res.labels = append(res.labels, "near-64k")
		}
	} else {
		res.labels = append(res.labels, "over64k(outside-quantifier)")
	}
	fail := func(f string, a ...any) {
		if res.fail == "" {
			res.fail = fmt.Sprintf(f, a...)
			res.sig = "c09-format4-encode"
		}
	}
	if min < 0 {
		fail("the segment graph has no path from 0 to 0x10000")
	}
	p, msg := guard(func() { b = cmap.Format4(gm).Encode(uint16(lang)) })
	if p {
		res.impl = "(panic 1)"
		if fits {
			fail("Format4.Encode panicked (%s) although a subtable of %d bytes exists", msg, min)
		}
		return nil, res
	}
	res.impl = vlib.Str(vlib.L(vlib.Atom("ok"), vlib.Hex(b), vlib.Int(1)))
	if !fits {
		// Length wraps silently; the standalone decoder does not read it
		return b, res
	}
	// --- oracle on tables inside the quantifier ---
	if len(b) > 65535 {
		fail("encoded subtable has %d bytes although %d suffice", len(b), min)
		return b, res
	}
	h, ok := readHeader4(b)
	segs, ok2 := parseSegments4(b)
	if !ok || !ok2 {
		fail("output is not a well-formed format 4 subtable")
		return b, res
	}
	n := len(segs)
	nv := 0
	for _, s := range segs {
		if s.useValues {
			nv++
		}
	}
	res.nontrivial = nv >= 1 || n >= 3
	res.labels = append(res.labels, sizeLabel("segs4", n), sizeLabel("valsegs4", nv))
	sr, es, rs := specHeader4(n)
	if h.format != 4 || int(h.length) != len(b) || int(h.language) != lang || int(h.segCountX2) != 2*n ||
		int(h.searchRange) != sr || int(h.entrySelector) != es || int(h.rangeShift) != rs {
		fail("header %+v does not match the specification's formulas (len %d, segCount %d: searchRange %d entrySelector %d rangeShift %d)", h, len(b), n, sr, es, rs)
	}
	if pad, _ := u16at(b, 14+2*n); pad != 0 {
		fail("reservedPad = %d", pad)
	}
	if n == 0 || segs[n-1].last != 0xFFFF {
		fail("last segment does not end at 0xFFFF")
	}
	for i, s := range segs {
		if s.last < s.first || (i > 0 && s.first <= segs[i-1].last) {
			fail("segments %d not sorted/disjoint", i)
		}
	}
	if len(b) != min {
		// not a property violation (any correct segmentation is fine), recorded
		res.labels = append(res.labels, "not-minimal")
	}
	// the independent reader on the whole code space (or on the probes for
	// very long segment lists)
	checkCode := func(c uint32) bool {
		g, def := specLookup4(b, uint16(c))
		if !def || g != m[c] {
			fail("specification reader: code %d -> glyph %d (defined=%v), map has %d", c, g, def, m[c])
			return false
		}
		return true
	}
	if n <= 300 {
		for c := uint32(0); c <= 0xFFFF; c++ {
			if !checkCode(c) {
				break
			}
		}
		res.labels = append(res.labels, "spec-reader:all-65536")
	} else {
		for _, c := range probes(m, 0xFFFF) {
			if !checkCode(c) {
				break
			}
		}
		res.labels = append(res.labels, "spec-reader:probes")
	}
	// a third-party reader (golang.org/x/image) on a font carrying the table
	if n <= 20000 {
		if look, err := xLookup(cmap.Key{PlatformID: 3, EncodingID: 1}, b); err != nil {
			fail("x/image rejects a font carrying the subtable: %v", err)
		} else {
			for _, c := range probes(m, 0xFFFF) {
				if g, err := look(c); err != nil || g != m[c] {
					fail("x/image GlyphIndex(%d) = %d (err=%v), map has %d", c, g, err, m[c])
					break
				}
			}
			res.labels = append(res.labels, "x/image-reader")
		}
	}
	// the library's decoder returns the map (glyph 0 entries are dropped)
	var sub cmap.Subtable
	var derr error
	if p, msg := guard(func() { sub, derr = cmap.VerifC09DecodeFormat(4, b, nil) }); p {
		fail("decodeFormat4 panicked on Encode's output: %s", msg)
	} else if derr != nil {
		fail("decodeFormat4 rejects Encode's output: %v", derr)
	} else {
		got := sub.(cmap.Format4)
		want := 0
		for k, v := range m {
			if v != 0 {
				want++
				if uint16(got[uint16(k)]) != v {
					fail("round trip: code %d -> %d, want %d", k, got[uint16(k)], v)
					break
				}
			}
		}
		if len(got) != want {
			fail("round trip: %d entries, want %d", len(got), want)
		}
	}
	return b, res
}

func pairsOf4(s cmap.Format4) vlib.List {
	ks := make([]int, 0, len(s))
	for k := range s {
		ks = append(ks, int(k))
	}
	sort.Ints(ks)
	l := vlib.List{vlib.Atom("ok")}
	for _, k := range ks {
		l = append(l, vlib.L(vlib.Int(k), vlib.Int(int(s[uint16(k)]))))
	}
	return l
}

// dec4 MAC BYTES : decodeFormat4
func doDec4(args []vlib.Sx) (res result, err error) {
	if len(args) != 2 {
		return res, fmt.Errorf("dec4: want 2 arguments")
	}
	mac, err := vlib.AsBool(args[0])
	if err != nil {
		return res, err
	}
	if mac {
		return res, fmt.Errorf("dec4: mac not supported")
	}
	b, err := vlib.AsBytes(args[1])
	if err != nil {
		return res, err
	}
	var sub cmap.Subtable
	var derr error
	if p, msg := guard(func() { sub, derr = cmap.VerifC09DecodeFormat(4, b, nil) }); p {
		res.impl = "panic"
		res.fail = "decodeFormat4 panicked: " + msg
		res.sig = "c09-decode-panic"
		return res, nil
	}
	if derr != nil {
		res.impl = "err"
		res.nontrivial = len(b) >= 16 && len(b)%2 == 0
		res.labels = append(res.labels, "dec4:err")
		return res, nil
	}
	got := sub.(cmap.Format4)
	res.impl = vlib.Str(pairsOf4(got))
	res.nontrivial = true
	res.labels = append(res.labels, "dec4:ok", sizeLabel("entries4", len(got)))
	if d := beyondBMP(got); d != "" {
		res.fail, res.sig = d, "c09-lookup-beyond-bmp"
		return res, nil
	}
	// oracle: the accepted table decodes to the mapping the specification
	// defines.  Tolerated by the decoder and by this oracle: a final segment
	// 0xFFFF..0xFFFF whose idRangeOffset points outside the glyphIdArray is
	// treated as unmapped.
	segs, _ := parseSegments4(b)
	check := func(c uint32) bool {
		g, def := specLookup4(b, uint16(c))
		lib := uint16(got[uint16(c)])
		if def && g == lib {
			return true
		}
		if c == 0xFFFF && lib == 0 {
			res.labels = append(res.labels, "dec4:tolerated-last-segment")
			return true
		}
		res.fail = fmt.Sprintf("accepted table: specification reader gives code %d -> glyph %d (defined=%v), decoder gives %d", c, g, def, lib)
		res.sig = "c09-format4-decode"
		return false
	}
	if len(segs) <= 300 {
		for c := uint32(0); c <= 0xFFFF; c++ {
			if !check(c) {
				break
			}
		}
	} else {
		m := gmap{}
		for k, v := range got {
			m[uint32(k)] = uint16(v)
		}
		for _, c := range probes(m, 0xFFFF) {
			if !check(c) {
				break
			}
		}
	}
	return res, nil
}

// look4 BYTES (codes) : lookups through the library, in S_lookup4's syntax
func doLook4(args []vlib.Sx) (res result, err error) {
	if len(args) != 2 {
		return res, fmt.Errorf("look4: want 2 arguments")
	}
	b, err := vlib.AsBytes(args[0])
	if err != nil {
		return res, err
	}
	cs, err := vlib.AsList(args[1])
	if err != nil {
		return res, err
	}
	var sub cmap.Subtable
	var derr error
	if p, msg := guard(func() { sub, derr = cmap.VerifC09DecodeFormat(4, b, nil) }); p {
		res.impl = "panic"
		res.fail = "decodeFormat4 panicked: " + msg
		res.sig = "c09-decode-panic"
		return res, nil
	}
	if derr != nil {
		res.impl = "err"
		return res, nil
	}
	out := vlib.List{}
	for _, x := range cs {
		c, err := vlib.AsInt(x)
		if err != nil {
			return res, err
		}
		g := sub.Lookup(rune(c))
		out = append(out, vlib.L(vlib.Atom("some"), vlib.Int(int(g))))
		sg, def := specLookup4(b, uint16(c))
		if (!def || sg != uint16(g)) && res.fail == "" {
			res.fail = fmt.Sprintf("Lookup(%d) = %d, specification reader %d (defined=%v)", c, g, sg, def)
			res.sig = "c09-format4-lookup"
		}
	}
	res.impl = vlib.Str(out)
	res.nontrivial = len(cs) > 0
	return res, nil
}

// table4 assembles a format 4 subtable from explicit arrays (also invalid ones).
func table4(lang uint16, segs []segment4, gia []uint16, tweak func(h *header4)) []byte {
	n := len(segs)
	sr, es, rs := specHeader4(n)
	h := header4{4, uint16(16 + 8*n + 2*len(gia)), lang, uint16(2 * n), uint16(sr), uint16(es), uint16(rs)}
	if tweak != nil {
		tweak(&h)
	}
	var b []byte
	for _, v := range []uint16{h.format, h.length, h.language, h.segCountX2, h.searchRange, h.entrySelector, h.rangeShift} {
		b = append(b, be16(v)...)
	}
	for _, s := range segs {
		b = append(b, be16(s.last)...)
	}
	b = append(b, 0, 0)
	for _, s := range segs {
		b = append(b, be16(s.first)...)
	}
	for _, s := range segs {
		b = append(b, be16(s.delta)...)
	}
	for _, s := range segs {
		b = append(b, be16(s.rangeOffset)...)
	}
	for _, g := range gia {
		b = append(b, be16(g)...)
	}
	return b
}

// randomTable4 builds a structurally plausible table by hand (not through the
// encoder): ordered segments, delta or range-offset segments with non-zero
// idDelta, shared and overlapping glyphIdArray ranges, zeros in the array.
func randomTable4(r *vlib.Rand) []byte {
	n := r.Range(1, 12)
	var segs []segment4
	c := r.Intn(200)
	gia := make([]uint16, r.Intn(60))
	for i := range gia {
		if r.Chance(1, 5) {
			gia[i] = 0
		} else {
			gia[i] = uint16(r.Intn(65536))
		}
	}
	for i := 0; i < n-1 && c < 65000; i++ {
		l := r.Range(1, 20)
		s := segment4{first: uint16(c), last: uint16(c + l - 1), delta: uint16(r.Intn(65536))}
		if r.Chance(1, 3) {
			s.delta = 0
		}
		if r.Bool() && len(gia) >= l {
			pos := r.Intn(len(gia) - l + 1)
			// idRangeOffset relative to this segment's entry; n fixed below
			s.useValues = true
			s.rangeOffset = uint16(pos) // patched once n is known
		}
		segs = append(segs, s)
		c += l + r.Intn(30)
	}
	last := segment4{first: 0xFFFF, last: 0xFFFF, delta: 1}
	switch r.Intn(6) {
	case 0:
		last.delta = uint16(r.Intn(65536))
	case 1:
		last.useValues = true
		last.rangeOffset = 0xFFFF // invalid, tolerated
	case 2:
		last.first = uint16(r.Range(65000, 65535))
	}
	segs = append(segs, last)
	n = len(segs)
	for i := range segs {
		if segs[i].useValues && segs[i].rangeOffset != 0xFFFF {
			segs[i].rangeOffset = uint16(2 * (n - i + int(segs[i].rangeOffset)))
		} else if !segs[i].useValues {
			segs[i].rangeOffset = 0
		}
	}
	return table4(uint16(r.Intn(3)), segs, gia, nil)
}

func gen4(run *vlib.Run, r *vlib.Rand, tier string) {
	langs := []int{0, 1, 255, 256, 65535}
	var encoded [][]byte

	doMap := func(m gmap, lang int, withEdges bool, labels ...string) {
		gm := toGoMap(m)
		if withEdges {
			// the vertices the search can visit
			_, verts := minSize4(gm)
			pick := verts
			if len(pick) > 30 {
				pick = append([]uint32(nil), verts[:10]...)
				for i := 0; i < 12; i++ {
					pick = append(pick, verts[r.Intn(len(verts))])
				}
				pick = append(pick, verts[len(verts)-8:]...)
			}
			// plus arbitrary vertices, the end of the code space and beyond
			for i := 0; i < 2; i++ {
				pick = append(pick, uint32(r.Intn(65536)))
			}
			pick = append(pick, 0xFFFB, 0xFFFC, 0xFFFD, 0xFFFE, 0xFFFF, 0x10000, 0x10001)
			vl := vlib.List{}
			for _, v := range pick {
				vl = append(vl, vlib.U64(uint64(v)))
			}
			emit(run, vlib.Line(vlib.Atom("edges4"), m.sx(), vl), labels...)
		}
		b, res := encode4(m, lang)
		var segl vlib.List
		if b != nil {
			if segs, ok := parseSegments4(b); ok {
				for _, s := range segs {
					segl = append(segl, segSx(s.first, s.last, s.delta, s.useValues))
				}
			}
		}
		line := vlib.Line(vlib.Atom("emit4"), vlib.Int(lang), m.sx(), segl)
		inside := false
		for _, l := range res.labels {
			if l == "fits64k" {
				inside = true
			}
		}
		if b == nil || !inside {
			// Encode panicked or the table is beyond 64 KiB: oracle only
			line = "!" + line
		}
		emit(run, line, labels...)
		if b != nil && inside && len(b) <= 3000 {
			if len(encoded) < 4000 {
				encoded = append(encoded, b)
			}
			var cs vlib.List
			pr := probes(m, 0xFFFF)
			for i, c := range pr {
				if len(pr) > 40 && i%(len(pr)/40+1) != 0 && c < 0xFFFC {
					continue
				}
				cs = append(cs, vlib.U64(uint64(c)))
			}
			emit(run, vlib.Line(vlib.Atom("look4"), vlib.Hex(b), cs), labels...)
		}
	}

	// boundary maps
	doMap(gmap{}, 0, true, "boundary")
	doMap(gmap{0: 1}, 0, true, "boundary")
	doMap(gmap{0xFFFF: 1}, 0, true, "boundary", "ffff-mapped")
	doMap(gmap{0xFFFF: 65535}, 7, true, "boundary", "ffff-mapped")
	doMap(gmap{0xFFFE: 1}, 0, true, "boundary")
	doMap(gmap{0xFFFE: 1, 0xFFFF: 2}, 0, true, "boundary", "ffff-mapped")
	doMap(gmap{0xFFFD: 9, 0xFFFE: 1, 0xFFFF: 2}, 0, true, "boundary", "ffff-mapped")
	doMap(gmap{0: 65535, 1: 0, 2: 1}, 0, true, "boundary", "gid-wrap")
	doMap(gmap{100: 65535, 101: 0, 102: 1, 103: 2, 104: 3}, 0, true, "boundary", "gid-wrap")
	doMap(gmap{0x41: 1, 0x42: 2, 0x43: 3, 0x44: 4}, 0, true, "boundary")
	doMap(gmap{0x41: 1, 0x42: 2, 0x43: 3}, 0, true, "boundary")
	for _, m := range endOfSpaceMaps(r) {
		doMap(m, 0, true, "end-of-code-space")
	}

	n := vlib.Count(tier, 230, 5000)
	for i := 0; i < n; i++ {
		m, labels := randomMap(r, 0xFFFF)
		if _, ok := m[0xFFFF]; ok {
			labels = append(labels, "ffff-mapped")
		}
		doMap(m, vlib.Pick(r, langs), true, labels...)
	}

	// exhaustive small windows: every assignment of {unmapped, delta A, delta B,
	// other} to w consecutive codes, at the start, in the middle and at the end
	w := vlib.Count(tier, 3, 5)
	total := 1
	for i := 0; i < w; i++ {
		total *= 4
	}
	for _, base := range []uint32{0, 0x4000, 0x10000 - uint32(w)} {
		for code := 0; code < total; code++ {
			m := gmap{}
			x := code
			for i := 0; i < w; i++ {
				c := base + uint32(i)
				switch x % 4 {
				case 1:
					m[c] = uint16(c) + 100
				case 2:
					m[c] = uint16(c) + 65000
				case 3:
					m[c] = uint16(7 + 3*i*i)
				}
				x /= 4
			}
			doMap(m, 0, true, "exhaustive-window")
		}
	}

	// large maps, near and beyond the 64 KiB limit
	type big struct {
		kind string
		n    int
	}
	// (a block of n unrelated glyph ids makes AppendEdges quadratic in n: every
	// code of the block is a vertex whose explicit-value proposal scans the rest;
	// the 64 KiB block costs ~10 s per Encode and is left to the thorough tier)
	bigs := []big{{"isolated", 8187}, {"isolated", 8190}, {"values", 2500}, {"identity", 65536}}
	if tier == "thorough" {
		bigs = append(bigs, big{"isolated", 8100}, big{"isolated", 8185}, big{"runs", 60000},
			big{"isolated", 8186}, big{"isolated", 8188}, big{"isolated", 8189}, big{"isolated", 9000},
			big{"values", 32755}, big{"values", 32765}, big{"mixed", 20000}, big{"mixed", 30000}, big{"runs", 65000})
	}
	for _, bg := range bigs {
		m := gmap{}
		switch bg.kind {
		case "isolated": // every mapped code needs its own 8-byte segment
			c := uint32(0)
			for i := 0; i < bg.n && c < 0xFFFF; i++ {
				m[c] = uint16(r.Range(1, 65535))
				c += uint32(r.Range(6, 8))
			}
		case "values": // one long explicit-value segment
			for c := uint32(100); c < 100+uint32(bg.n); c++ {
				m[c] = uint16(r.Range(1, 65535))
			}
		case "runs":
			c := uint32(0)
			g := uint16(1)
			for len(m) < bg.n && c < 0xFFFF {
				l := r.Range(1, 400)
				for j := 0; j < l && c < 0xFFFF; j++ {
					m[c] = g
					g++
					c++
				}
				c += uint32(r.Range(1, 3))
			}
		case "identity":
			for c := uint32(0); c <= 0xFFFF; c++ {
				m[c] = uint16(c)
			}
		case "mixed":
			c := uint32(0)
			for len(m) < bg.n && c < 0xFFF0 {
				if r.Bool() {
					m[c] = uint16(r.Range(1, 65535))
					c += uint32(r.Range(1, 7))
				} else {
					l := r.Range(4, 30)
					for j := 0; j < l && c < 0xFFF0; j++ {
						m[c] = uint16(r.Range(1, 65535))
						c++
					}
					c += uint32(r.Range(1, 7))
				}
			}
		}
		doMap(m, 0, bg.n <= 10000, "large", "large:"+bg.kind)
	}

	// decoder: valid, truncated, extended, mutated, hand-built, adversarial
	dline := func(b []byte) string { return vlib.Line(vlib.Atom("dec4"), vlib.Bool(false), vlib.Hex(b)) }
	nd := vlib.Count(tier, 700, 20000)
	for i := 0; i < nd; i++ {
		var b []byte
		if r.Chance(1, 3) || len(encoded) == 0 {
			b = randomTable4(r)
		} else {
			b = encoded[r.Intn(len(encoded))]
		}
		switch r.Intn(8) {
		case 0, 1:
			emit(run, dline(b), "valid")
		case 2:
			emit(run, dline(b[:r.Intn(len(b)+1)]), "truncated")
		case 3:
			emit(run, dline(append(append([]byte(nil), b...), r.Bytes(2*r.Range(1, 6))...)), "extended")
		default:
			emit(run, dline(mutate(r, b)), "mutated")
		}
	}
	ff := segment4{first: 0xFFFF, last: 0xFFFF, delta: 1}
	adv := []struct {
		segs []segment4
		gia  []uint16
		tw   func(h *header4)
	}{
		{[]segment4{ff}, nil, nil},
		{[]segment4{{first: 65, last: 66, delta: 5, useValues: true, rangeOffset: 4}, ff}, []uint16{10, 0}, nil},            // idDelta with idRangeOffset
		{[]segment4{{first: 65, last: 66, delta: 65535, useValues: true, rangeOffset: 4}, ff}, []uint16{1, 2}, nil},          // value + delta = 0
		{[]segment4{{first: 65, last: 66, useValues: true, rangeOffset: 5}, ff}, []uint16{10, 11}, nil},                      // odd offset
		{[]segment4{{first: 65, last: 66, useValues: true, rangeOffset: 2}, ff}, []uint16{10, 11}, nil},                      // points into idRangeOffset
		{[]segment4{{first: 65, last: 66, useValues: true, rangeOffset: 6}, ff}, []uint16{10, 11}, nil},                      // runs past the array
		{[]segment4{{first: 65, last: 66, useValues: true, rangeOffset: 65534}, ff}, []uint16{10, 11}, nil},                  // far outside
		{[]segment4{{first: 65, last: 70, delta: 3}, {first: 70, last: 80, delta: 4}, ff}, nil, nil},                        // overlap
		{[]segment4{{first: 65, last: 70, delta: 3}, {first: 71, last: 80, delta: 4}, ff}, nil, nil},                        // adjacent
		{[]segment4{{first: 80, last: 90, delta: 3}, {first: 10, last: 20, delta: 4}, ff}, nil, nil},                        // unsorted
		{[]segment4{{first: 70, last: 65, delta: 3}, ff}, nil, nil},                                                         // end < start
		{[]segment4{{first: 65, last: 70, delta: 3}}, nil, nil},                                                             // no final segment
		{[]segment4{{first: 0, last: 0xFFFF, delta: 0}}, nil, nil},                                                          // identity in one segment
		{[]segment4{{first: 0, last: 0xFFFF, delta: 1}}, nil, nil},                                                          //
		{[]segment4{{first: 0, last: 0xFFFE, delta: 0}, {first: 0xFFFF, last: 0xFFFF, useValues: true, rangeOffset: 2}}, []uint16{77}, nil}, // valid last
		{[]segment4{{first: 0xFFFF, last: 0xFFFF, useValues: true, rangeOffset: 0xFFFE}}, nil, nil},                          // tolerated bad last segment
		{[]segment4{{first: 0xFFFF, last: 0xFFFF, useValues: true, rangeOffset: 1}}, nil, nil},                               //
		{[]segment4{{first: 0xFFFF, last: 0xFFFF, useValues: true, rangeOffset: 0xFFFE}, ff}, nil, nil},                      // segment after the tolerated one
		{[]segment4{ff}, nil, func(h *header4) { h.segCountX2 = 3 }},
		{[]segment4{ff}, nil, func(h *header4) { h.segCountX2 = 4 }},
		{[]segment4{ff}, nil, func(h *header4) { h.segCountX2 = 0 }},
		{[]segment4{ff}, nil, func(h *header4) { h.segCountX2 = 0xFFFE }},
		{[]segment4{ff, ff}, nil, func(h *header4) { h.segCountX2 = 2 }},
		{[]segment4{ff}, nil, func(h *header4) { h.length = 0; h.format = 9 }},
	}
	for _, a := range adv {
		emit(run, dline(table4(0, a.segs, a.gia, a.tw)), "adversarial")
	}
	// many segments sharing one large glyphIdArray (aliasing offsets)
	{
		ns := vlib.Count(tier, 300, 2000)
		gia := make([]uint16, 4000)
		for i := range gia {
			gia[i] = uint16(i + 1)
		}
		var segs []segment4
		for i := 0; i < ns; i++ {
			segs = append(segs, segment4{first: uint16(20 * i), last: uint16(20*i + 15), useValues: true})
		}
		segs = append(segs, ff)
		for i := range segs[:ns] {
			segs[i].rangeOffset = uint16(2 * (len(segs) - i + 1000))
		}
		emit(run, dline(table4(0, segs, gia, nil)), "adversarial", "aliasing")
	}
	for l := 0; l <= 26; l++ {
		emit(run, dline(make([]byte, l)), "short")
	}
}


// lk4 ((k g) ...) (r ...): cmap.Format4.Lookup on runes of every kind - in the
// BMP, supplementary, beyond U+10FFFF, negative - against M_lookup4.
func init() { handlers["lk4"] = doLk4 }

func doLk4(args []vlib.Sx) (res result, err error) {
	if len(args) != 2 {
		return res, fmt.Errorf("lk4: want 2 arguments")
	}
	gm, err := parseGmap(args[0])
	if err != nil {
		return res, err
	}
	m := toFormat4(gm)
	rs, err := vlib.AsList(args[1])
	if err != nil {
		return res, err
	}
	out := vlib.List{}
	for _, x := range rs {
		r, err := vlib.AsI64(x)
		if err != nil || r < -0x80000000 || r > 0x7fffffff {
			return res, fmt.Errorf("lk4: bad rune")
		}
		var g glyph.ID
		if p, msg := guard(func() { g = m.Lookup(rune(r)) }); p {
			res.impl = "panic"
			res.fail = "Format4.Lookup panicked: " + msg
			res.sig = "c09-lookup-panic"
			return res, nil
		}
		out = append(out, vlib.Int(int(g)))
		// the specification side: the map on 0..0xFFFF, glyph 0 elsewhere
		want := glyph.ID(0)
		if r >= 0 && r <= 0xFFFF {
			want = m[uint16(r)]
		}
		if g != want && res.fail == "" {
			res.fail = fmt.Sprintf("Format4.Lookup(%d) = %d, want %d", r, g, want)
			res.sig = "c09-lookup-beyond-bmp"
		}
	}
	res.impl = vlib.Str(out)
	res.nontrivial = len(m) > 0
	res.labels = append(res.labels, "lk4")
	return res, nil
}

func genLk4(run *vlib.Run, r *vlib.Rand, tier string) {
	n := vlib.Count(tier, 60, 1500)
	for i := 0; i < n; i++ {
		m, _ := randomMap(r, 0xFFFF)
		for len(m) > 40 {
			for k := range m {
				delete(m, k)
				break
			}
		}
		f4 := toFormat4(m)
		var rs vlib.List
		add := func(v int64) { rs = append(rs, vlib.I64(v)) }
		for _, v := range []int64{0, 0x41, 0xFFFF, 0x10000, 0x10041, 0x1FFFF, 0x10FFFF, 0x110000, 0x7FFFFFFF, -1, -0x10000, -0x80000000} {
			add(v)
		}
		for k := range f4 {
			add(int64(k))
			add(int64(k) + int64(r.Range(1, 16))<<16)
			add(int64(k) - 0x10000)
		}
		emit(run, vlib.Line(vlib.Atom("lk4"), pairsOf4(f4)[1:], rs), "lk4")
	}
}
