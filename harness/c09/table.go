package c09

import (
	"bytes"
	"fmt"
	"reflect"
	"sort"

	"seehuhn.de/go/sfnt"
	"seehuhn.de/go/sfnt/cmap"
	"seehuhn.de/go/sfnt/glyph"
	"seehuhn.de/go/sfnt/mac"
	"seehuhn.de/go/sfnt/verifharness/vlib"
)

func init() {
	handlers["tdec"] = doTdec
	handlers["tenc"] = doTenc
	handlers["best"] = doBest
	handlers["install"] = doInstall
}

func sortedKeys(t cmap.Table) []cmap.Key {
	ks := make([]cmap.Key, 0, len(t))
	for k := range t {
		ks = append(ks, k)
	}
	sort.Slice(ks, func(i, j int) bool {
		a, b := ks[i], ks[j]
		if a.PlatformID != b.PlatformID {
			return a.PlatformID < b.PlatformID
		}
		if a.EncodingID != b.EncodingID {
			return a.EncodingID < b.EncodingID
		}
		return a.Language < b.Language
	})
	return ks
}

// subtable header as the specification lays it out: format, length, language
func subHeader(b []byte) (format int, length int64, lang int, ok bool) {
	f, ok1 := u16at(b, 0)
	if !ok1 {
		return 0, 0, 0, false
	}
	switch f {
	case 0, 2, 4, 6:
		l, ok2 := u16at(b, 2)
		la, ok3 := u16at(b, 4)
		return int(f), int64(l), int(la), ok2 && ok3
	case 8, 10, 12, 13:
		l, ok2 := u32at(b, 4)
		la, ok3 := u32at(b, 8)
		return int(f), int64(l), int(la & 0xFFFF), ok2 && ok3
	case 14:
		l, ok2 := u32at(b, 2)
		return int(f), int64(l), 0, ok2
	}
	return int(f), 0, 0, false
}

// tdec BYTES : cmap.Decode
func doTdec(args []vlib.Sx) (res result, err error) {
	if len(args) != 1 {
		return res, fmt.Errorf("tdec: want 1 argument")
	}
	b, err := vlib.AsBytes(args[0])
	if err != nil {
		return res, err
	}
	b = b[:len(b):len(b)]
	var t cmap.Table
	var derr error
	if p, msg := guard(func() { t, derr = cmap.Decode(b) }); p {
		res.impl = "panic"
		res.fail = "cmap.Decode panicked: " + msg
		res.sig = "c09-decode-panic"
		return res, nil
	}
	if derr != nil {
		res.impl = "err"
		res.nontrivial = len(b) >= 12
		res.labels = append(res.labels, "tdec:err")
		return res, nil
	}
	out := vlib.List{vlib.Atom("ok")}
	ks := sortedKeys(t)
	type span struct{ lo, hi int }
	var spans []span
	fail := func(f string, a ...any) {
		if res.fail == "" {
			res.fail = fmt.Sprintf(f, a...)
			res.sig = "c09-table-decode"
		}
	}
	for _, k := range ks {
		sub := t[k]
		off := cap(b) - cap(sub)
		out = append(out, vlib.L(vlib.Int(int(k.PlatformID)), vlib.Int(int(k.EncodingID)), vlib.Int(int(k.Language)),
			vlib.Int(off), vlib.Int(len(sub))))
		spans = append(spans, span{off, off + len(sub)})
		// documented guarantee: at least 10 bytes and a valid format
		f, l, la, ok := subHeader(sub)
		if len(sub) < 10 || !ok {
			fail("subtable %v: %d bytes, header not valid", k, len(sub))
			continue
		}
		if l != int64(len(sub)) {
			fail("subtable %v: length field %d, slice %d", k, l, len(sub))
		}
		if k.PlatformID == 1 && int(k.Language) != la {
			fail("subtable %v: language field %d", k, la)
		}
		if k.PlatformID != 1 && k.Language != 0 {
			fail("subtable %v: language must be 0 for this platform", k)
		}
		_ = f
		// Get never panics on a decoded table
		if p, msg := guard(func() { _, _ = t.Get(k) }); p {
			fail("Get(%v) panicked on a decoded table: %s", k, msg)
		}
	}
	// subtables are pairwise disjoint or identical
	for i := range spans {
		for j := i + 1; j < len(spans); j++ {
			a, c := spans[i], spans[j]
			if a == c {
				continue
			}
			if a.lo < c.hi && c.lo < a.hi {
				fail("subtables %v and %v overlap without being identical", ks[i], ks[j])
			}
		}
	}
	// decode(encode(t)) = t
	if res.fail == "" && len(ks) < 65536 {
		var enc []byte
		if p, msg := guard(func() { enc = t.Encode() }); p {
			fail("Encode of a decoded table panicked: %s", msg)
		} else if t2, err := cmap.Decode(enc); err != nil {
			fail("Decode(Encode(t)) fails: %v", err)
		} else if !sameTable(t, t2) {
			fail("Decode(Encode(t)) differs from t")
		}
	}
	res.impl = vlib.Str(out)
	res.nontrivial = len(ks) >= 2
	res.labels = append(res.labels, "tdec:ok", sizeLabel("records", len(ks)))
	return res, nil
}

func sameTable(a, b cmap.Table) bool {
	if len(a) != len(b) {
		return false
	}
	for k, v := range a {
		w, ok := b[k]
		if !ok || !bytes.Equal(v, w) {
			return false
		}
	}
	return true
}

type tentry struct {
	key  cmap.Key
	data []byte
}

func parseTable(x vlib.Sx) ([]tentry, error) {
	l, err := vlib.AsList(x)
	if err != nil {
		return nil, err
	}
	var out []tentry
	for _, y := range l {
		f, err := vlib.AsList(y)
		if err != nil || len(f) != 4 {
			return nil, fmt.Errorf("bad table entry")
		}
		p, e1 := vlib.AsInt(f[0])
		e, e2 := vlib.AsInt(f[1])
		la, e3 := vlib.AsInt(f[2])
		d, e4 := vlib.AsBytes(f[3])
		if e1 != nil || e2 != nil || e3 != nil || e4 != nil {
			return nil, fmt.Errorf("bad table entry")
		}
		out = append(out, tentry{cmap.Key{PlatformID: uint16(p), EncodingID: uint16(e), Language: uint16(la)}, d})
	}
	return out, nil
}

func tableSx(t cmap.Table) vlib.Sx {
	l := vlib.List{}
	for _, k := range sortedKeys(t) {
		l = append(l, vlib.L(vlib.Int(int(k.PlatformID)), vlib.Int(int(k.EncodingID)), vlib.Int(int(k.Language)), vlib.Hex(t[k])))
	}
	return l
}

// wfEntry: the entry is one that Decode can return (the hypothesis of the
// table round-trip statement)
func wfEntry(e tentry) bool {
	_, l, la, ok := subHeader(e.data)
	if !ok || len(e.data) < 10 || l != int64(len(e.data)) || e.key.PlatformID > 4 {
		return false
	}
	if f, _ := u16at(e.data, 0); f >= 8 && f <= 13 && len(e.data) < 12 {
		return false
	}
	if e.key.PlatformID == 1 {
		return int(e.key.Language) == la
	}
	return e.key.Language == 0
}

// tenc TABLE : Table.Encode
func doTenc(args []vlib.Sx) (res result, err error) {
	if len(args) != 1 {
		return res, fmt.Errorf("tenc: want 1 argument")
	}
	ents, err := parseTable(args[0])
	if err != nil {
		return res, err
	}
	t := cmap.Table{}
	for _, e := range ents {
		t[e.key] = e.data
	}
	if len(t) != len(ents) {
		return res, fmt.Errorf("tenc: duplicate keys")
	}
	var enc []byte
	if p, msg := guard(func() { enc = t.Encode() }); p {
		res.impl = "panic"
		res.fail = "Table.Encode panicked: " + msg
		res.sig = "c09-table-encode"
		return res, nil
	}
	res.impl = vlib.Str(vlib.L(vlib.Atom("ok"), vlib.Hex(enc)))
	res.nontrivial = len(ents) >= 2
	res.labels = append(res.labels, sizeLabel("records", len(ents)))
	fail := func(f string, a ...any) {
		if res.fail == "" {
			res.fail = fmt.Sprintf(f, a...)
			res.sig = "c09-table-encode"
		}
	}
	// header and record order, written from the specification
	if v, _ := u16at(enc, 0); v != 0 {
		fail("version %d", v)
	}
	if n, _ := u16at(enc, 2); int(n) != len(ents) {
		fail("numTables %d, want %d", n, len(ents))
	}
	ks := sortedKeys(t)
	distinct := map[string]bool{}
	total := 4 + 8*len(ks)
	allWf := true
	for i, k := range ks {
		p, _ := u16at(enc, 4+8*i)
		e, _ := u16at(enc, 6+8*i)
		o, _ := u32at(enc, 8+8*i)
		if p != k.PlatformID || e != k.EncodingID {
			fail("record %d is (%d,%d), want (%d,%d): records must be sorted", i, p, e, k.PlatformID, k.EncodingID)
		}
		d := t[k]
		if int(o)+len(d) > len(enc) || !bytes.Equal(enc[int(o):int(o)+len(d)], d) {
			fail("record %d: offset %d does not point at the subtable's bytes", i, o)
		}
		if !distinct[string(d)] {
			distinct[string(d)] = true
			total += len(d)
		}
		if !wfEntry(tentry{k, d}) {
			allWf = false
		}
	}
	// equal subtables are stored once
	if len(enc) != total {
		fail("encoded length %d, want %d (header + each distinct subtable once)", len(enc), total)
	}
	if allWf {
		res.labels = append(res.labels, "tenc:wellformed")
		t2, err := cmap.Decode(enc)
		if err != nil {
			fail("Decode(Encode(t)) fails: %v", err)
		} else if !sameTable(t, t2) {
			fail("Decode(Encode(t)) differs from t")
		}
	} else {
		res.labels = append(res.labels, "tenc:not-decodable-by-construction")
	}
	return res, nil
}

// the preference order stated by the property: full Unicode, then BMP, then
// the legacy Macintosh encoding
var bestOrder = []cmap.Key{{PlatformID: 3, EncodingID: 10}, {PlatformID: 0, EncodingID: 4}, {PlatformID: 3, EncodingID: 1}, {PlatformID: 0, EncodingID: 3}, {PlatformID: 1, EncodingID: 0}}

// best BYTES : cmap.Decode followed by GetBest
func doBest(args []vlib.Sx) (res result, err error) {
	if len(args) != 1 {
		return res, fmt.Errorf("best: want 1 argument")
	}
	b, err := vlib.AsBytes(args[0])
	if err != nil {
		return res, err
	}
	var t cmap.Table
	var derr error
	if p, msg := guard(func() { t, derr = cmap.Decode(b) }); p {
		res.impl = "panic"
		res.fail = "cmap.Decode panicked: " + msg
		res.sig = "c09-decode-panic"
		return res, nil
	}
	if derr != nil {
		res.impl = "err"
		return res, nil
	}
	var best cmap.Subtable
	var berr error
	if p, msg := guard(func() { best, berr = t.GetBest() }); p {
		res.impl = "panic"
		res.fail = "GetBest panicked: " + msg
		res.sig = "c09-decode-panic"
		return res, nil
	}
	// the first key of the preference order that is present and decodable
	idx := -1
	var want cmap.Subtable
	for i, k := range bestOrder {
		var s cmap.Subtable
		var e error
		if p, msg := guard(func() { s, e = t.Get(k) }); p {
			res.fail = fmt.Sprintf("Get(%v) panicked: %s", k, msg)
			res.sig = "c09-decode-panic"
			break
		}
		if e == nil {
			idx, want = i, s
			break
		}
	}
	res.nontrivial = len(t) >= 2
	if idx < 0 {
		res.impl = "none"
		res.labels = append(res.labels, "best:none")
		if berr == nil && res.fail == "" {
			res.fail = "GetBest returned a subtable although no candidate is present and decodable"
			res.sig = "c09-getbest"
		}
		return res, nil
	}
	res.impl = vlib.Str(vlib.L(vlib.Atom("best"), vlib.Int(idx)))
	res.labels = append(res.labels, fmt.Sprintf("best:%d", idx))
	if res.fail == "" && (berr != nil || !reflect.DeepEqual(best, want)) {
		res.fail = fmt.Sprintf("GetBest does not return the subtable of the first usable candidate %v (err=%v)", bestOrder[idx], berr)
		res.sig = "c09-getbest"
	}
	return res, nil
}

// install HIGH : Font.InstallCMap with a subtable whose code range ends at HIGH
func doInstall(args []vlib.Sx) (res result, err error) {
	if len(args) != 1 {
		return res, fmt.Errorf("install: want 1 argument")
	}
	high, err := vlib.AsI64(args[0])
	if err != nil || high < 0 || high > 0x7FFFFFFF {
		return res, fmt.Errorf("install: bad code")
	}
	var s cmap.Subtable
	if high > 0xFFFF {
		s = cmap.Format12{uint32(high): glyph.ID(7)}
	} else {
		s = cmap.Format4{uint16(high): glyph.ID(7)}
	}
	f := &sfnt.Font{}
	if p, msg := guard(func() { f.InstallCMap(s) }); p {
		res.impl = "panic"
		res.fail = "InstallCMap panicked: " + msg
		res.sig = "c09-installcmap"
		return res, nil
	}
	out := vlib.List{}
	for _, k := range sortedKeys(f.CMapTable) {
		out = append(out, vlib.L(vlib.Int(int(k.PlatformID)), vlib.Int(int(k.EncodingID)), vlib.Int(int(k.Language))))
	}
	res.impl = vlib.Str(out)
	res.nontrivial = true
	// oracle: BMP-only maps get (0,3) and (3,1), others (0,4) and (3,10); the
	// installed table survives Encode/Decode, and GetBest finds the mapping
	want := "((0 3 0) (3 1 0))"
	if high > 0xFFFF {
		want = "((0 4 0) (3 10 0))"
		res.labels = append(res.labels, "install:full")
	} else {
		res.labels = append(res.labels, "install:bmp")
	}
	if res.impl != want {
		res.fail = "InstallCMap keys " + res.impl + ", want " + want
		res.sig = "c09-installcmap"
		return res, nil
	}
	t2, err2 := cmap.Decode(f.CMapTable.Encode())
	if err2 != nil || !sameTable(f.CMapTable, t2) {
		res.fail = fmt.Sprintf("installed table does not survive Encode/Decode (%v)", err2)
		res.sig = "c09-installcmap"
		return res, nil
	}
	best, err3 := t2.GetBest()
	if err3 != nil || best.Lookup(rune(high)) != 7 {
		res.fail = fmt.Sprintf("GetBest on the installed table does not map code %d (err=%v)", high, err3)
		res.sig = "c09-installcmap"
		return res, nil
	}
	// InstallCMap REPLACES the character map, whatever the font held before
	// (a table with subtables under other keys, of the other kind, from a file
	// or from an earlier InstallCMap), and it leaves a copy of the font alone.
	for _, prev := range []cmap.Subtable{
		cmap.Format12{0x1F600: glyph.ID(6), 0x41: glyph.ID(4)},
		cmap.Format4{0x41: glyph.ID(4), 0x5A: glyph.ID(29)},
	} {
		g := &sfnt.Font{}
		g.InstallCMap(prev)
		g.CMapTable[cmap.Key{PlatformID: 1, EncodingID: 0}] = table6(0, 65, 1, []uint16{9}, nil)
		keep := *g // a copy of the font value taken before the second call
		before := vlib.Str(tableSx(keep.CMapTable))
		if p, msg := guard(func() { g.InstallCMap(s) }); p {
			res.fail = "InstallCMap on a font with a character map panicked: " + msg
			res.sig = "c09-installcmap"
			return res, nil
		}
		if got := vlib.Str(tableSx(g.CMapTable)); got != vlib.Str(tableSx(f.CMapTable)) {
			res.fail = "InstallCMap on a font that already had a character map leaves " + got + ", on a fresh font " + vlib.Str(tableSx(f.CMapTable))
			res.sig = "c09-installcmap-replaces"
			return res, nil
		}
		if b2, e := g.CMapTable.GetBest(); e != nil || b2.Lookup(rune(high)) != 7 || (high != 0x41 && b2.Lookup(0x41) != 0) || b2.Lookup(0x1F600) != 0 && high != 0x1F600 {
			res.fail = fmt.Sprintf("after InstallCMap the best subtable still shows the previous mapping (code %d, err=%v)", high, e)
			res.sig = "c09-installcmap-replaces"
			return res, nil
		}
		if after := vlib.Str(tableSx(keep.CMapTable)); after != before {
			res.fail = "InstallCMap on a font changed the character map of a copy of that font taken before the call: " + before + " became " + after
			res.sig = "c09-installcmap-replaces"
			return res, nil
		}
	}
	return res, nil
}

// ---------- generators ----------

// randomSubtable returns the bytes of a subtable of one of the formats a cmap
// table may carry; lang is written into its language field.
func randomSubtable(r *vlib.Rand, lang uint16) []byte {
	switch r.Intn(9) {
	case 0:
		return append([]byte{0, 0, 1, 6, byte(lang >> 8), byte(lang)}, r.Bytes(256)...)
	case 1, 2, 3:
		m, _ := randomMap(r, 0xFFFF)
		for len(m) > 300 {
			for k := range m {
				delete(m, k)
				break
			}
		}
		var b []byte
		guard(func() { b = toFormat4(m).Encode(lang) })
		if b != nil {
			return b
		}
		return table4(lang, []segment4{{first: 0xFFFF, last: 0xFFFF, delta: 1}}, nil, nil)
	case 4:
		n := r.Intn(20)
		g := make([]uint16, n)
		for i := range g {
			g[i] = uint16(r.Intn(65536))
		}
		return table6(lang, r.Intn(60000), n, g, nil)
	case 5, 6:
		m, _ := randomMap(r, 0x10FFFF)
		for len(m) > 300 {
			for k := range m {
				delete(m, k)
				break
			}
		}
		return toFormat12(m).Encode(lang)
	case 7:
		// a format the library stores but cannot interpret (2, 8, 10, 13)
		f := vlib.Pick(r, []uint16{2, 8, 10, 13})
		n := r.Range(12, 40)
		b := make([]byte, n)
		copy(b, be16(f))
		if f == 2 {
			copy(b[2:], be16(uint16(n)))
			copy(b[4:], be16(lang))
		} else {
			copy(b[4:], be32(uint32(n)))
			copy(b[10:], be16(lang))
		}
		return b
	default:
		n := r.Range(10, 40)
		b := make([]byte, n)
		copy(b, be16(14))
		copy(b[2:], be32(uint32(n)))
		return b
	}
}

func randomKey(r *vlib.Rand) cmap.Key {
	if r.Chance(3, 5) {
		k := vlib.Pick(r, bestOrder)
		return k
	}
	return cmap.Key{PlatformID: uint16(r.Intn(5)), EncodingID: uint16(vlib.Pick(r, []int{0, 1, 3, 4, 10, r.Intn(12)}))}
}

func genTable(run *vlib.Run, r *vlib.Rand, tier string) {
	var encoded [][]byte
	n := vlib.Count(tier, 250, 8000)
	for i := 0; i < n; i++ {
		t := cmap.Table{}
		nk := vlib.Pick(r, []int{0, 1, 1, 2, 2, 3, 4, 6, 9})
		var pool [][]byte
		for j := 0; j < nk; j++ {
			k := randomKey(r)
			var d []byte
			if len(pool) > 0 && r.Chance(1, 3) {
				d = vlib.Pick(r, pool) // shared subtable
			} else {
				lang := uint16(0)
				if k.PlatformID == 1 {
					lang = uint16(r.Intn(4))
				}
				d = randomSubtable(r, lang)
				pool = append(pool, d)
			}
			// the key's language must be the subtable's own for platform 1
			if k.PlatformID == 1 {
				_, _, la, ok := subHeader(d)
				if ok && r.Chance(9, 10) {
					k.Language = uint16(la)
				} else {
					k.Language = uint16(r.Intn(3))
				}
			} else if r.Chance(1, 12) {
				k.Language = uint16(r.Range(1, 3)) // not reproducible by Decode
			}
			if r.Chance(1, 25) {
				d = d[:r.Intn(len(d)+1)] // malformed subtable
			}
			t[k] = d
		}
		labels := []string{}
		shared := map[string]int{}
		for _, d := range t {
			shared[string(d)]++
		}
		for _, c := range shared {
			if c > 1 {
				labels = append(labels, "shared-subtable")
				break
			}
		}
		res := emit(run, vlib.Line(vlib.Atom("tenc"), tableSx(t)), labels...)
		if len(res.impl) > 4 && res.impl[:4] == "(ok " {
			l, _ := vlib.Parse(res.impl)
			f, _ := vlib.AsList(l[0])
			b, _ := vlib.AsBytes(f[1])
			if len(b) < 20000 {
				encoded = append(encoded, b)
			}
		}
	}
	// tables with many encoding records: the 16-bit record count and the
	// 32-bit offsets behind a long directory (255/256/257 records and beyond)
	manySizes := []int{255, 256, 257, 300}
	if tier == "thorough" {
		manySizes = append(manySizes, 511, 512, 513, 1000, 4096)
	}
	for _, nk := range manySizes {
		for variant := 0; variant < 2; variant++ {
			t := cmap.Table{}
			var pool [][]byte
			for len(t) < nk {
				i := len(t)
				k := cmap.Key{PlatformID: uint16([]int{0, 2, 3, 4}[i%4]), EncodingID: uint16(i / 4)}
				var d []byte
				if variant == 1 && len(pool) > 0 && r.Chance(1, 2) {
					d = vlib.Pick(r, pool) // shared subtable
				} else {
					d = table6(0, r.Intn(60000), 1, []uint16{uint16(1 + i)}, nil)
					pool = append(pool, d)
				}
				t[k] = d
			}
			if variant == 1 {
				// a few Macintosh records with their own languages in between
				for la := 0; la < 3; la++ {
					t[cmap.Key{PlatformID: 1, EncodingID: 0, Language: uint16(la)}] = table6(uint16(la), 65, 1, []uint16{7}, nil)
				}
			}
			res := emit(run, vlib.Line(vlib.Atom("tenc"), tableSx(t)), "many-keys")
			if len(res.impl) > 4 && res.impl[:4] == "(ok " {
				l, _ := vlib.Parse(res.impl)
				f, _ := vlib.AsList(l[0])
				b, _ := vlib.AsBytes(f[1])
				emit(run, vlib.Line(vlib.Atom("tdec"), vlib.Hex(b)), "many-keys")
				emit(run, vlib.Line(vlib.Atom("best"), vlib.Hex(b)), "many-keys")
			}
		}
	}
	tl := func(b []byte) string { return vlib.Line(vlib.Atom("tdec"), vlib.Hex(b)) }
	bl := func(b []byte) string { return vlib.Line(vlib.Atom("best"), vlib.Hex(b)) }
	nd := vlib.Count(tier, 700, 20000)
	for i := 0; i < nd && len(encoded) > 0; i++ {
		b := encoded[r.Intn(len(encoded))]
		switch r.Intn(10) {
		case 0, 1:
			emit(run, tl(b), "valid")
			emit(run, bl(b), "valid")
		case 2:
			emit(run, tl(b[:r.Intn(len(b)+1)]), "truncated")
		case 3:
			emit(run, tl(append(append([]byte(nil), b...), r.Bytes(r.Range(1, 12))...)), "extended")
		case 4:
			// mutate the header / record area only
			c := append([]byte(nil), b...)
			hl := 4 + 8*int(uint16(c[2])<<8|uint16(c[3]))
			if hl > len(c) {
				hl = len(c)
			}
			if hl > 0 {
				p := r.Intn(hl)
				c[p] = byte(r.Uint64())
			}
			emit(run, tl(c), "mutated-header")
			emit(run, bl(c), "mutated-header")
		case 5:
			// offsets made to alias / overlap
			c := append([]byte(nil), b...)
			nt := int(uint16(c[2])<<8 | uint16(c[3]))
			if nt >= 2 && 4+8*nt <= len(c) {
				i1, i2 := r.Intn(nt), r.Intn(nt)
				o2, _ := u32at(c, 8+8*i2)
				d := uint32(r.Intn(7)) - 3
				copy(c[8+8*i1:], be32(o2+d))
			}
			emit(run, tl(c), "aliased-offsets")
		default:
			c := mutate(r, b)
			emit(run, tl(c), "mutated")
			emit(run, bl(c), "mutated")
		}
	}
	// hand-made boundary tables
	rec := func(p, e uint16, o uint32) []byte {
		return append(append(be16(p), be16(e)...), be32(o)...)
	}
	mk := func(n int, recs [][]byte, body []byte) []byte {
		b := append([]byte{0, 0}, be16(uint16(n))...)
		for _, x := range recs {
			b = append(b, x...)
		}
		return append(b, body...)
	}
	f6 := table6(0, 65, 1, []uint16{9}, nil) // 12 bytes
	f14 := []byte{0, 14, 0, 0, 0, 10, 0, 0, 0, 0}
	adv := [][]byte{
		{}, {0}, {0, 0, 0}, {0, 0, 0, 0}, {0, 1, 0, 0}, {0, 0, 0, 1}, {0, 0, 0xFF, 0xFF},
		mk(1, [][]byte{rec(3, 1, 12)}, f6),
		mk(1, [][]byte{rec(3, 1, 11)}, f6),                                    // offset inside the header
		mk(1, [][]byte{rec(3, 1, 13)}, f6),                                    // subtable cut short
		mk(1, [][]byte{rec(5, 1, 12)}, f6),                                    // platform 5
		mk(1, [][]byte{rec(4, 1, 12)}, f6),                                    // platform 4
		mk(1, [][]byte{rec(3, 1, 0xFFFFFFFF)}, f6),                            // huge offset
		mk(1, [][]byte{rec(3, 1, 12)}, f14),                                   // format 14, 10 bytes
		mk(1, [][]byte{rec(3, 1, 12)}, f14[:9]),                               //
		mk(2, [][]byte{rec(0, 3, 20), rec(3, 1, 20)}, f6),                     // shared
		mk(2, [][]byte{rec(0, 3, 20), rec(3, 1, 22)}, append(f6, f6...)),      // overlapping
		mk(2, [][]byte{rec(0, 3, 32), rec(3, 1, 20)}, append(f6, f6...)),      // reverse order, disjoint
		mk(2, [][]byte{rec(3, 1, 20), rec(3, 1, 32)}, append(f6, f6...)),      // duplicate key
		mk(3, [][]byte{rec(0, 3, 28), rec(1, 0, 40), rec(3, 1, 34)}, append(append(f6, f6...), f6...)), // middle overlaps both
		mk(1, [][]byte{rec(3, 10, 12)}, []byte{0, 12, 0, 0, 0, 0, 0, 11, 0, 0, 0, 0}), // format 12 length 11 < 12
		mk(1, [][]byte{rec(3, 10, 12)}, []byte{0, 12, 0, 0, 0, 0, 0, 12, 0, 0, 0, 0}), // 12-byte format 12 stub
		mk(1, [][]byte{rec(3, 10, 12)}, []byte{0, 12, 0, 0, 0, 0, 0, 16, 0, 0, 0, 0, 0, 0, 0}), // cut
		mk(1, [][]byte{rec(3, 10, 12)}, []byte{0, 8, 0, 0, 0, 0, 0, 11, 0, 0, 0}),     // format 8 with 11 bytes
		mk(1, [][]byte{rec(3, 1, 12)}, []byte{0, 3, 0, 10, 0, 0, 0, 0, 0, 0}),         // unknown format 3
		mk(1, [][]byte{rec(1, 0, 12)}, table6(5, 65, 1, []uint16{9}, nil)),            // mac language 5
		mk(1, [][]byte{rec(1, 1, 12)}, table6(5, 65, 1, []uint16{9}, nil)),            // unsupported mac encoding
		mk(1, [][]byte{rec(3, 1, 12)}, []byte{0, 0, 0, 10, 0, 0, 1, 2, 3, 4}),         // format 0 with 10 bytes
		mk(1, [][]byte{rec(3, 1, 12)}, []byte{0, 4, 0, 10, 0, 0, 0, 2, 0, 0}),         // format 4 with 10 bytes
	}
	for _, b := range adv {
		emit(run, tl(b), "adversarial")
		emit(run, bl(b), "adversarial")
	}
	// every subset of the candidate keys, decodable or not
	for mask := 0; mask < 32; mask++ {
		for _, broken := range []int{-1, 0, 1, 2, 3, 4} {
			t := cmap.Table{}
			for i, k := range bestOrder {
				if mask&(1<<i) == 0 {
					continue
				}
				var d []byte
				if i < 2 {
					d = cmap.Format12{uint32(0x10000 + i): 3}.Encode(0)
				} else {
					d = cmap.Format4{uint16(0x40 + i): 3}.Encode(0)
				}
				if i == broken {
					d = append([]byte(nil), d...)
					d[1] = 2 // format 2: present but not decodable
				}
				t[k] = d
			}
			if broken >= 0 && mask&(1<<broken) == 0 {
				continue
			}
			emit(run, bl(t.Encode()), "candidate-subsets")
		}
	}
	for _, h := range []int64{0, 1, 0x7F, 0xFFFE, 0xFFFF, 0x10000, 0x10001, 0x10FFFF, 0x110000, 0x7FFFFFFF} {
		emit(run, vlib.Line(vlib.Atom("install"), vlib.I64(h)), "boundary")
	}
	for i := 0; i < vlib.Count(tier, 20, 400); i++ {
		emit(run, vlib.Line(vlib.Atom("install"), vlib.I64(int64(r.Intn(0x120000)))))
	}
}

func init() { handlers["getsub"] = doGetSub }

func macTable() vlib.List {
	l := make(vlib.List, 256)
	for i := range l {
		l[i] = vlib.Int(int(mac.DecodeOne(byte(i))))
	}
	return l
}

// getsub P E RUNES BYTES : Table{Key{P,E,0}: BYTES}.Get(Key{P,E,0}); RUNES is
// mac.DecodeOne for the 256 byte values (the model's code2rune for platform 1)
func doGetSub(args []vlib.Sx) (res result, err error) {
	if len(args) != 4 {
		return res, fmt.Errorf("getsub: want 4 arguments")
	}
	p, e1 := vlib.AsInt(args[0])
	e, e2 := vlib.AsInt(args[1])
	b, e3 := vlib.AsBytes(args[3])
	if e1 != nil || e2 != nil || e3 != nil {
		return res, fmt.Errorf("getsub: bad arguments")
	}
	if vlib.Str(args[2]) != vlib.Str(macTable()) {
		return res, fmt.Errorf("getsub: the rune table in the case is not mac.DecodeOne's")
	}
	key := cmap.Key{PlatformID: uint16(p), EncodingID: uint16(e)}
	t := cmap.Table{key: b}
	var sub cmap.Subtable
	var gerr error
	f, _, _, hdrOK := subHeader(b)
	_ = f
	reachable := len(b) >= 10 && hdrOK // what cmap.Decode can hand out
	if pn, msg := guard(func() { sub, gerr = t.Get(key) }); pn {
		res.impl = "panic"
		if reachable {
			res.fail = "Table.Get panicked on a subtable cmap.Decode can return: " + msg
			res.sig = "c09-decode-panic"
		} else {
			res.labels = append(res.labels, "getsub:panic-on-input-Decode-never-returns")
		}
		return res, nil
	}
	res.nontrivial = reachable
	if gerr != nil {
		res.impl = "err"
		res.labels = append(res.labels, "getsub:err")
		return res, nil
	}
	switch s := sub.(type) {
	case *cmap.Format0:
		res.impl = vlib.Str(vlib.L(vlib.Atom("bytes"), vlib.Hex(s.Data[:])))
	case cmap.Format4:
		l := pairsOf4(s)
		l[0] = vlib.Atom("map")
		res.impl = vlib.Str(l)
	case cmap.Format12:
		l := pairsOf12(s)
		l[0] = vlib.Atom("map")
		res.impl = vlib.Str(l)
	default:
		res.impl = "unknown-type"
	}
	res.labels = append(res.labels, fmt.Sprintf("getsub:ok-platform%d", p))
	// A Macintosh byte table (format 0 under key (1,0)) maps Mac Roman codes:
	// the glyph of code c must be found at the character mac.DecodeOne(c)
	// (fixed finding c09-format0-mac-codes-not-translated: decodeFormat0
	// ignored code2rune and handed out a *Format0 indexed by the rune).
	if p == 1 && e == 0 && len(b) == 262 && b[0] == 0 && b[1] == 0 {
		res.labels = append(res.labels, "getsub:mac-format0")
		for c := 0; c < 256; c++ {
			r := mac.DecodeOne(byte(c))
			if g := sub.Lookup(r); int(g) != int(b[6+c]) {
				res.fail = fmt.Sprintf("Macintosh format 0 subtable: Mac code 0x%02X (U+%04X) has glyph %d, Lookup(U+%04X) = %d", c, r, b[6+c], r, g)
				res.sig = "c09-format0-mac-codes-not-translated"
				break
			}
		}
	}
	return res, nil
}

func genGetSub(run *vlib.Run, r *vlib.Rand, tier string) {
	tbl := macTable()
	line := func(p, e int, b []byte) string {
		return vlib.Line(vlib.Atom("getsub"), vlib.Int(p), vlib.Int(e), tbl, vlib.Hex(b))
	}
	n := vlib.Count(tier, 250, 6000)
	for i := 0; i < n; i++ {
		b := randomSubtable(r, uint16(r.Intn(3)))
		if len(b) > 3000 {
			continue
		}
		p, e := 1, 0
		switch r.Intn(6) {
		case 0:
			p, e = 1, r.Range(1, 3) // unsupported Mac encoding
		case 1:
			p, e = 3, 1
		case 2:
			p, e = 0, 3
		}
		switch r.Intn(8) {
		case 0:
			b = mutate(r, b)
		case 1:
			b = b[:r.Intn(len(b)+1)]
		}
		emit(run, line(p, e, b), "getsub")
	}
	// format 4 / 6 with codes above 255 under the Mac mapping: byte(code)
	// folds them onto 0..255 and later codes overwrite earlier ones
	emit(run, line(1, 0, table6(0, 250, 12, []uint16{1, 2, 3, 4, 5, 6, 7, 8, 9, 10, 11, 12}, nil)), "getsub", "mac-fold")
	emit(run, line(1, 0, table4(0, []segment4{{first: 0x41, last: 0x5A, delta: 10}, {first: 0x141, last: 0x15A, delta: 20}, {first: 0xFFFF, last: 0xFFFF, delta: 1}}, nil, nil)), "getsub", "mac-fold")
	for _, f := range []uint16{1, 3, 5, 7, 9, 11, 15, 255, 256, 0xFFFF} {
		b := make([]byte, 12)
		copy(b, be16(f))
		emit(run, line(3, 1, b), "getsub", "unknown-format")
	}
	for l := 0; l <= 12; l++ {
		emit(run, line(3, 1, make([]byte, l)), "getsub", "short")
		emit(run, line(1, 0, make([]byte, l)), "getsub", "short")
	}
}
