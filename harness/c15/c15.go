// Package c15 drives feature selection (gtab.Info.FindLookups), the kern
// reader, the tables sfnt.Read synthesises (kern -> GPOS, standard
// ligatures) and Font.NewLayouter/Layouter.Layout, and records the
// observations in the syntax the Coq model (ocaml/c15_driver.ml) prints.
//
// Case kinds (first atom; a leading "!" marks an oracle-only case):
//
//	fl     sorted rev1 rev2 midx lang (SL) (FL) nLookups SW
//	kern   xBYTES
//	stdlig (CMAP)
//	lay    (MT) rev1 rev2 lang (CMAP) OUTL GDEF GSUB GPOS GSUBSW GPOSSW (runes)
//	rlay   (MT) rev1 rev2 lang (CMAP) OUTL GDEF fixed KERN GSUBSW GPOSSW (runes)
//
//	SL    = ((xTAG nil) | (xTAG (req (opt...))) ...)   language systems, in any order
//	FL    = ((tag (lookup...)) ...)                     features, tag as big-endian number
//	SW    = nil | ((tag 0|1) ...)                       feature switches
//	MT    = (((xTAG ...) idx) ...)                      what x/text answers for a sorted tag list
//	CMAP  = ((rune gid) ...)
//	OUTL  = (glyf n nil) | (glyf n (w...)) | (cff (w...))   n = number of glyphs (Font.NumGlyphs)
//	GDEF  = nil | ((gid class) ...)
//	GSUB, GPOS = nil | ((SL) (FL) (LOOKUP...))
//	LOOKUP = none | (pair (l r v)...) | (liga (first ((in...) out)...)...)
//	         | (sub1 flags delta (gid...)) | (pos1 flags xadv (gid...))   (oracle-only cases)
//	KERN  = nil | xBYTES
//
// The oracles state the property on the real code's observables and do not
// use the model: see oracleFL, oracleKern, oracleLayout.
package c15

import (
	"bytes"
	"errors"
	"fmt"
	"sort"
	"strings"

	"golang.org/x/text/language"
	"seehuhn.de/go/postscript/funit"
	"seehuhn.de/go/sfnt"
	"seehuhn.de/go/sfnt/cff"
	"seehuhn.de/go/sfnt/cmap"
	"seehuhn.de/go/sfnt/glyf"
	"seehuhn.de/go/sfnt/glyph"
	"seehuhn.de/go/sfnt/header"
	"seehuhn.de/go/sfnt/kern"
	"seehuhn.de/go/sfnt/opentype/classdef"
	"seehuhn.de/go/sfnt/opentype/coverage"
	"seehuhn.de/go/sfnt/opentype/gdef"
	"seehuhn.de/go/sfnt/opentype/gtab"
	"seehuhn.de/go/sfnt/verifharness/vlib"
)

// ---------------------------------------------------------------- plain data

type featsT struct {
	Nil bool
	Req int
	Opt []int
}

type slEntryT struct {
	Tag string // language.Tag.String()
	F   featsT
}

type featureT struct {
	Tag     string // 4 bytes
	Lookups []int
}

type swT struct {
	Nil bool
	M   map[string]bool
}

type pairT struct{ L, R, V int }

type ligT struct {
	In  []int
	Out int
}

type ligSetT struct {
	First int
	Ligs  []ligT
}

type lookupT struct {
	Kind  string // none pair liga sub1 pos1
	Pairs []pairT
	Sets  []ligSetT
	Flags int
	Arg   int
	Cov   []int
}

type gtabT struct {
	Nil bool
	SL  []slEntryT
	FL  []featureT
	LL  []lookupT
}

type fontT struct {
	Cmap   map[rune]int
	Outl   string // "glyf-nil", "glyf", "cff"
	Widths []int
	Gdef   map[int]int // nil = no GDEF table
	Gsub   gtabT
	Gpos   gtabT
}

func tagN(s string) uint32 {
	return uint32(s[0])<<24 | uint32(s[1])<<16 | uint32(s[2])<<8 | uint32(s[3])
}

func tagS(n uint32) string {
	return string([]byte{byte(n >> 24), byte(n >> 16), byte(n >> 8), byte(n)})
}

// ---------------------------------------------------------------- printing

func (f featsT) sx() vlib.Sx {
	if f.Nil {
		return vlib.Atom("nil")
	}
	return vlib.L(vlib.Int(f.Req), vlib.Ints(f.Opt))
}

func slSx(sl []slEntryT) vlib.Sx {
	l := vlib.List{}
	for _, e := range sl {
		l = append(l, vlib.L(vlib.Hex([]byte(e.Tag)), e.F.sx()))
	}
	return l
}

func flSx(fl []featureT) vlib.Sx {
	l := vlib.List{}
	for _, f := range fl {
		l = append(l, vlib.L(vlib.U64(uint64(tagN(f.Tag))), vlib.Ints(f.Lookups)))
	}
	return l
}

func (s swT) sx() vlib.Sx {
	if s.Nil {
		return vlib.Atom("nil")
	}
	keys := make([]string, 0, len(s.M))
	for k := range s.M {
		keys = append(keys, k)
	}
	sort.Strings(keys)
	l := vlib.List{}
	for _, k := range keys {
		l = append(l, vlib.L(vlib.U64(uint64(tagN(k))), vlib.Bool(s.M[k])))
	}
	return l
}

func (s swT) goMap() map[string]bool {
	if s.Nil {
		return nil
	}
	m := make(map[string]bool, len(s.M))
	for k, v := range s.M {
		m[k] = v
	}
	return m
}

func (lk lookupT) sx() vlib.Sx {
	switch lk.Kind {
	case "none":
		return vlib.Atom("none")
	case "pair":
		ps := append([]pairT(nil), lk.Pairs...)
		sort.Slice(ps, func(i, j int) bool {
			if ps[i].L != ps[j].L {
				return ps[i].L < ps[j].L
			}
			return ps[i].R < ps[j].R
		})
		l := vlib.List{vlib.Atom("pair")}
		for _, p := range ps {
			l = append(l, vlib.L(vlib.Int(p.L), vlib.Int(p.R), vlib.Int(p.V)))
		}
		return l
	case "liga":
		return setsSx("liga", lk.Sets)
	case "sub1", "pos1":
		return vlib.L(vlib.Atom(lk.Kind), vlib.Int(lk.Flags), vlib.Int(lk.Arg), vlib.Ints(lk.Cov))
	}
	panic("bad lookup kind")
}

func setsSx(head string, sets []ligSetT) vlib.Sx {
	l := vlib.List{vlib.Atom(head)}
	for _, s := range sets {
		sl := vlib.List{vlib.Int(s.First)}
		for _, lg := range s.Ligs {
			sl = append(sl, vlib.L(vlib.Ints(lg.In), vlib.Int(lg.Out)))
		}
		l = append(l, sl)
	}
	return l
}

func (g gtabT) sx() vlib.Sx {
	if g.Nil {
		return vlib.Atom("nil")
	}
	ll := vlib.List{}
	for _, lk := range g.LL {
		ll = append(ll, lk.sx())
	}
	return vlib.L(slSx(g.SL), flSx(g.FL), ll)
}

func cmapSx(cm map[rune]int) vlib.Sx {
	keys := make([]int, 0, len(cm))
	for r := range cm {
		keys = append(keys, int(r))
	}
	sort.Ints(keys)
	l := vlib.List{}
	for _, r := range keys {
		l = append(l, vlib.L(vlib.Int(r), vlib.Int(cm[rune(r)])))
	}
	return l
}

func outlSx(kind string, w []int) vlib.Sx {
	switch kind {
	case "glyf-nil":
		// goOutlines builds one glyph and no width slice
		return vlib.L(vlib.Atom("glyf"), vlib.Int(1), vlib.Atom("nil"))
	case "glyf":
		return vlib.L(vlib.Atom("glyf"), vlib.Int(len(w)), vlib.Ints(w))
	case "cff":
		return vlib.L(vlib.Atom("cff"), vlib.Ints(w))
	}
	panic("bad outline kind")
}

func gdefSx(g map[int]int) vlib.Sx {
	if g == nil {
		return vlib.Atom("nil")
	}
	keys := make([]int, 0, len(g))
	for k := range g {
		keys = append(keys, k)
	}
	sort.Ints(keys)
	l := vlib.List{}
	for _, k := range keys {
		l = append(l, vlib.L(vlib.Int(k), vlib.Int(g[k])))
	}
	return l
}

func runesSx(rs []rune) vlib.Sx {
	l := vlib.List{}
	for _, r := range rs {
		l = append(l, vlib.Int(int(r)))
	}
	return l
}

func seqSx(seq []glyph.Info) string {
	l := vlib.List{vlib.Atom("ok")}
	for _, g := range seq {
		l = append(l, vlib.L(vlib.Int(int(g.GID)), runesSx(g.Text), vlib.Int(int(g.XOffset)), vlib.Int(int(g.YOffset)), vlib.Int(int(g.Advance))))
	}
	return vlib.Str(l)
}

// ---------------------------------------------------------------- language tags

func parseTag(s string) (language.Tag, error) {
	t, err := language.Parse(s)
	if err != nil {
		return language.Tag{}, fmt.Errorf("tag %q: %v", s, err)
	}
	return t, nil
}

// sortedTags returns the keys of a script list in the order of their strings
// (Go's string order), and the corresponding language.Tag values.
func sortedTags(sl []slEntryT) ([]string, []language.Tag, error) {
	strs := make([]string, len(sl))
	for i, e := range sl {
		strs[i] = e.Tag
	}
	sort.Strings(strs)
	tags := make([]language.Tag, len(strs))
	for i, s := range strs {
		t, err := parseTag(s)
		if err != nil {
			return nil, nil, err
		}
		tags[i] = t
	}
	return strs, tags, nil
}

// matcherIndex asks x/text which of the (sorted) tags matches lang.
func matcherIndex(sl []slEntryT, lang language.Tag) (int, []string, error) {
	strs, tags, err := sortedTags(sl)
	if err != nil {
		return 0, nil, err
	}
	if len(tags) == 0 {
		return 0, strs, nil
	}
	_, idx, _ := language.NewMatcher(tags).Match(lang)
	return idx, strs, nil
}

// matcherTable lists, for every non-empty script list of the font, the sorted
// tag list and x/text's answer.
func matcherTable(lang language.Tag, tabs ...gtabT) (vlib.Sx, error) {
	l := vlib.List{}
	for _, g := range tabs {
		if g.Nil || len(g.SL) == 0 {
			continue
		}
		idx, strs, err := matcherIndex(g.SL, lang)
		if err != nil {
			return nil, err
		}
		tl := vlib.List{}
		for _, s := range strs {
			tl = append(tl, vlib.Hex([]byte(s)))
		}
		l = append(l, vlib.L(tl, vlib.Int(idx)))
	}
	return l, nil
}

// ---------------------------------------------------------------- building the real structures

func (f featsT) goFeatures() *gtab.Features {
	if f.Nil {
		return nil
	}
	opt := make([]gtab.FeatureIndex, len(f.Opt))
	for i, o := range f.Opt {
		opt[i] = gtab.FeatureIndex(o)
	}
	return &gtab.Features{Required: gtab.FeatureIndex(f.Req), Optional: opt}
}

func goScriptList(sl []slEntryT) (gtab.ScriptListInfo, error) {
	res := gtab.ScriptListInfo{}
	for _, e := range sl {
		t, err := parseTag(e.Tag)
		if err != nil {
			return nil, err
		}
		if _, dup := res[t]; dup {
			return nil, fmt.Errorf("duplicate language tag %q", e.Tag)
		}
		res[t] = e.F.goFeatures()
	}
	return res, nil
}

// shareOptional re-homes the Optional slices of all language systems (and the
// Lookups slices of all features) as ADJACENT sub-slices of one backing array
// each, the way a caller who assembles tables in memory can hold them: every
// slice has spare capacity, and the memory behind it is its neighbour (or a
// sentinel).  Returns a function that reports the first difference between the
// arrays now and at the time of the call ("" if none).
func shareOptional(info *gtab.Info) func() string {
	const sentinelF, sentinelL = gtab.FeatureIndex(0xABCD), gtab.LookupIndex(0xDCBA)
	var tags []language.Tag
	for t, f := range info.ScriptList {
		if f != nil {
			tags = append(tags, t)
		}
	}
	sort.Slice(tags, func(i, j int) bool { return tags[i].String() < tags[j].String() })
	var fa []gtab.FeatureIndex
	for _, t := range tags {
		fa = append(fa, info.ScriptList[t].Optional...)
	}
	fa = append(fa, sentinelF, sentinelF)
	pos := 0
	for _, t := range tags {
		f := info.ScriptList[t]
		n := len(f.Optional)
		f.Optional = fa[pos : pos+n] // cap reaches to the end of the shared array
		pos += n
	}
	var la []gtab.LookupIndex
	for _, f := range info.FeatureList {
		if f != nil {
			la = append(la, f.Lookups...)
		}
	}
	la = append(la, sentinelL, sentinelL)
	pos = 0
	for _, f := range info.FeatureList {
		if f != nil {
			n := len(f.Lookups)
			f.Lookups = la[pos : pos+n]
			pos += n
		}
	}
	fa0 := append([]gtab.FeatureIndex(nil), fa...)
	la0 := append([]gtab.LookupIndex(nil), la...)
	return func() string {
		for i := range fa {
			if fa[i] != fa0[i] {
				return fmt.Sprintf("shared feature-index array changed at %d: %d -> %d", i, fa0[i], fa[i])
			}
		}
		for i := range la {
			if la[i] != la0[i] {
				return fmt.Sprintf("shared lookup-index array changed at %d: %d -> %d", i, la0[i], la[i])
			}
		}
		return ""
	}
}

func goFeatureList(fl []featureT) gtab.FeatureListInfo {
	res := make(gtab.FeatureListInfo, len(fl))
	for i, f := range fl {
		ls := make([]gtab.LookupIndex, len(f.Lookups))
		for j, l := range f.Lookups {
			ls[j] = gtab.LookupIndex(l)
		}
		res[i] = &gtab.Feature{Tag: f.Tag, Lookups: ls}
	}
	return res
}

func (lk lookupT) goLookup() *gtab.LookupTable {
	switch lk.Kind {
	case "none":
		return &gtab.LookupTable{Meta: &gtab.LookupMetaInfo{LookupType: 1}}
	case "pair":
		st := gtab.Gpos2_1{}
		for _, p := range lk.Pairs {
			st[glyph.Pair{Left: glyph.ID(p.L), Right: glyph.ID(p.R)}] = &gtab.PairAdjust{
				First: &gtab.GposValueRecord{XAdvance: funit.Int16(p.V)},
			}
		}
		return &gtab.LookupTable{Meta: &gtab.LookupMetaInfo{LookupType: 2}, Subtables: []gtab.Subtable{st}}
	case "liga":
		cov := coverage.Table{}
		var repl [][]gtab.Ligature
		for i, s := range lk.Sets {
			cov[glyph.ID(s.First)] = i
			var ligs []gtab.Ligature
			for _, lg := range s.Ligs {
				in := make([]glyph.ID, len(lg.In))
				for j, x := range lg.In {
					in[j] = glyph.ID(x)
				}
				ligs = append(ligs, gtab.Ligature{In: in, Out: glyph.ID(lg.Out)})
			}
			repl = append(repl, ligs)
		}
		return &gtab.LookupTable{Meta: &gtab.LookupMetaInfo{LookupType: 4},
			Subtables: []gtab.Subtable{&gtab.Gsub4_1{Cov: cov, Repl: repl}}}
	case "sub1":
		cov := coverage.Set{}
		for _, g := range lk.Cov {
			cov[glyph.ID(g)] = true
		}
		return &gtab.LookupTable{Meta: &gtab.LookupMetaInfo{LookupType: 1, LookupFlags: gtab.LookupFlags(lk.Flags)},
			Subtables: []gtab.Subtable{&gtab.Gsub1_1{Cov: cov, Delta: glyph.ID(lk.Arg)}}}
	case "pos1":
		cov := coverage.Table{}
		for i, g := range lk.Cov {
			cov[glyph.ID(g)] = i
		}
		return &gtab.LookupTable{Meta: &gtab.LookupMetaInfo{LookupType: 1, LookupFlags: gtab.LookupFlags(lk.Flags)},
			Subtables: []gtab.Subtable{&gtab.Gpos1_1{Cov: cov, Adjust: &gtab.GposValueRecord{XAdvance: funit.Int16(lk.Arg)}}}}
	}
	panic("bad lookup kind")
}

func (g gtabT) goInfo() (*gtab.Info, error) {
	if g.Nil {
		return nil, nil
	}
	sl, err := goScriptList(g.SL)
	if err != nil {
		return nil, err
	}
	ll := make(gtab.LookupList, len(g.LL))
	for i, lk := range g.LL {
		ll[i] = lk.goLookup()
	}
	return &gtab.Info{ScriptList: sl, FeatureList: goFeatureList(g.FL), LookupList: ll}, nil
}

func goCmap(cm map[rune]int) cmap.Subtable {
	big := false
	for r := range cm {
		if r > 0xFFFF {
			big = true
		}
	}
	if big {
		s := cmap.Format12{}
		for r, g := range cm {
			s[uint32(r)] = glyph.ID(g)
		}
		return s
	}
	s := cmap.Format4{}
	for r, g := range cm {
		s[uint16(r)] = glyph.ID(g)
	}
	return s
}

func goGdef(g map[int]int) *gdef.Table {
	if g == nil {
		return nil
	}
	cls := classdef.Table{}
	for k, v := range g {
		cls[glyph.ID(k)] = uint16(v)
	}
	return &gdef.Table{GlyphClass: cls}
}

// a one-contour triangle, so that the glyf table is not empty
var triangle = &glyf.Glyph{
	Rect16: funit.Rect16{URx: 100, URy: 100},
	Data:   glyf.SimpleGlyph{NumContours: 1, Encoded: []byte{0, 2, 0, 0, 1, 1, 1, 0, 0, 0, 100, 0, 0, 0, 0, 0, 0, 0, 100}},
}

func goOutlines(kind string, w []int) sfnt.Outlines {
	switch kind {
	case "glyf-nil":
		return &glyf.Outlines{Glyphs: glyf.Glyphs{triangle}}
	case "glyf":
		ws := make([]funit.Int16, len(w))
		for i, x := range w {
			ws[i] = funit.Int16(x)
		}
		gg := make(glyf.Glyphs, len(w))
		if len(gg) > 0 {
			gg[0] = triangle
		}
		return &glyf.Outlines{Glyphs: gg, Widths: ws}
	case "cff":
		o := &cff.Outlines{}
		for i, x := range w {
			o.Glyphs = append(o.Glyphs, cff.NewGlyph(fmt.Sprintf("g%d", i), float64(x)))
		}
		return o
	}
	panic("bad outline kind")
}

func (f fontT) goFont() (*sfnt.Font, error) {
	res := &sfnt.Font{FamilyName: "C15", UnitsPerEm: 1000, Outlines: goOutlines(f.Outl, f.Widths)}
	res.InstallCMap(goCmap(f.Cmap))
	res.Gdef = goGdef(f.Gdef)
	var err error
	res.Gsub, err = f.Gsub.goInfo()
	if err != nil {
		return nil, err
	}
	res.Gpos, err = f.Gpos.goInfo()
	if err != nil {
		return nil, err
	}
	return res, nil
}

// ---------------------------------------------------------------- running the implementation

func lookupsSx(ll []gtab.LookupIndex) string {
	l := vlib.List{vlib.Atom("ok")}
	for _, x := range ll {
		l = append(l, vlib.Int(int(x)))
	}
	return vlib.Str(l)
}

func callFindLookups(info *gtab.Info, lang language.Tag, sw map[string]bool) (res []gtab.LookupIndex, obs string) {
	defer func() {
		if e := recover(); e != nil {
			res, obs = nil, "panic"
		}
	}()
	res = info.FindLookups(lang, sw)
	return res, lookupsSx(res)
}

func callKernRead(b []byte) (info kern.Info, obs string) {
	defer func() {
		if e := recover(); e != nil {
			info, obs = nil, "panic"
		}
	}()
	info, err := kern.Read(bytes.NewReader(b))
	if err != nil {
		return nil, "err"
	}
	type ent struct{ l, r, v int }
	var es []ent
	for p, v := range info {
		es = append(es, ent{int(p.Left), int(p.Right), int(v)})
	}
	sort.Slice(es, func(i, j int) bool {
		if es[i].l != es[j].l {
			return es[i].l < es[j].l
		}
		return es[i].r < es[j].r
	})
	l := vlib.List{vlib.Atom("ok")}
	for _, e := range es {
		l = append(l, vlib.L(vlib.Int(e.l), vlib.Int(e.r), vlib.Int(e.v)))
	}
	return info, vlib.Str(l)
}

// callLayout runs NewLayouter and Layout; the result is copied because the
// slice belongs to the Layouter.
func callLayout(f *sfnt.Font, lang language.Tag, gsw, psw map[string]bool, strs ...string) (seqs [][]glyph.Info, obs string) {
	defer func() {
		if e := recover(); e != nil {
			seqs, obs = nil, "panic"
		}
	}()
	l, err := f.NewLayouter(lang, gsw, psw)
	if err != nil {
		return nil, "err"
	}
	for _, s := range strs {
		out := l.Layout(s)
		cp := make([]glyph.Info, len(out))
		for i, g := range out {
			cp[i] = g
			cp[i].Text = append([]rune(nil), g.Text...)
		}
		seqs = append(seqs, cp)
	}
	return seqs, seqSx(seqs[len(seqs)-1])
}

// addTable re-packs an sfnt file with one more table.
func addTable(font []byte, name string, data []byte) ([]byte, error) {
	hdr, err := header.Read(bytes.NewReader(font))
	if err != nil {
		return nil, err
	}
	tables := map[string][]byte{}
	for n := range hdr.Toc {
		b, err := hdr.ReadTableBytes(bytes.NewReader(font), n)
		if err != nil {
			return nil, err
		}
		tables[n] = b
	}
	tables[name] = data
	out := &bytes.Buffer{}
	if _, err := header.Write(out, hdr.ScalerType, tables); err != nil {
		return nil, err
	}
	return out.Bytes(), nil
}

// ---------------------------------------------------------------- parsing case lines

func asFeats(x vlib.Sx) (featsT, error) {
	if a, ok := x.(vlib.Atom); ok && a == "nil" {
		return featsT{Nil: true}, nil
	}
	l, err := vlib.AsList(x)
	if err != nil || len(l) != 2 {
		return featsT{}, errors.New("bad features")
	}
	req, err := vlib.AsInt(l[0])
	if err != nil {
		return featsT{}, err
	}
	opt, err := vlib.AsInts(l[1])
	if err != nil {
		return featsT{}, err
	}
	return featsT{Req: req, Opt: opt}, nil
}

func asSL(x vlib.Sx) ([]slEntryT, error) {
	l, err := vlib.AsList(x)
	if err != nil {
		return nil, err
	}
	var res []slEntryT
	for _, e := range l {
		p, err := vlib.AsList(e)
		if err != nil || len(p) != 2 {
			return nil, errors.New("bad script list entry")
		}
		t, err := vlib.AsBytes(p[0])
		if err != nil {
			return nil, err
		}
		f, err := asFeats(p[1])
		if err != nil {
			return nil, err
		}
		res = append(res, slEntryT{Tag: string(t), F: f})
	}
	return res, nil
}

func asFL(x vlib.Sx) ([]featureT, error) {
	l, err := vlib.AsList(x)
	if err != nil {
		return nil, err
	}
	var res []featureT
	for _, e := range l {
		p, err := vlib.AsList(e)
		if err != nil || len(p) != 2 {
			return nil, errors.New("bad feature")
		}
		t, err := vlib.AsI64(p[0])
		if err != nil {
			return nil, err
		}
		ls, err := vlib.AsInts(p[1])
		if err != nil {
			return nil, err
		}
		res = append(res, featureT{Tag: tagS(uint32(t)), Lookups: ls})
	}
	return res, nil
}

func asSW(x vlib.Sx) (swT, error) {
	if a, ok := x.(vlib.Atom); ok && a == "nil" {
		return swT{Nil: true}, nil
	}
	l, err := vlib.AsList(x)
	if err != nil {
		return swT{}, err
	}
	res := swT{M: map[string]bool{}}
	for _, e := range l {
		p, err := vlib.AsList(e)
		if err != nil || len(p) != 2 {
			return swT{}, errors.New("bad switch")
		}
		t, err := vlib.AsI64(p[0])
		if err != nil {
			return swT{}, err
		}
		b, err := vlib.AsBool(p[1])
		if err != nil {
			return swT{}, err
		}
		res.M[tagS(uint32(t))] = b
	}
	return res, nil
}

func asLookup(x vlib.Sx) (lookupT, error) {
	if a, ok := x.(vlib.Atom); ok {
		if a == "none" {
			return lookupT{Kind: "none"}, nil
		}
		return lookupT{}, errors.New("bad lookup")
	}
	l, err := vlib.AsList(x)
	if err != nil || len(l) == 0 {
		return lookupT{}, errors.New("bad lookup")
	}
	kind, err := vlib.AsAtom(l[0])
	if err != nil {
		return lookupT{}, err
	}
	res := lookupT{Kind: kind}
	switch kind {
	case "pair":
		for _, e := range l[1:] {
			v, err := vlib.AsInts(e)
			if err != nil || len(v) != 3 {
				return lookupT{}, errors.New("bad pair")
			}
			res.Pairs = append(res.Pairs, pairT{v[0], v[1], v[2]})
		}
	case "liga":
		for _, e := range l[1:] {
			sl, err := vlib.AsList(e)
			if err != nil || len(sl) == 0 {
				return lookupT{}, errors.New("bad ligature set")
			}
			first, err := vlib.AsInt(sl[0])
			if err != nil {
				return lookupT{}, err
			}
			set := ligSetT{First: first}
			for _, le := range sl[1:] {
				p, err := vlib.AsList(le)
				if err != nil || len(p) != 2 {
					return lookupT{}, errors.New("bad ligature")
				}
				in, err := vlib.AsInts(p[0])
				if err != nil {
					return lookupT{}, err
				}
				out, err := vlib.AsInt(p[1])
				if err != nil {
					return lookupT{}, err
				}
				set.Ligs = append(set.Ligs, ligT{In: in, Out: out})
			}
			res.Sets = append(res.Sets, set)
		}
	case "sub1", "pos1":
		if len(l) != 4 {
			return lookupT{}, errors.New("bad single lookup")
		}
		if res.Flags, err = vlib.AsInt(l[1]); err != nil {
			return lookupT{}, err
		}
		if res.Arg, err = vlib.AsInt(l[2]); err != nil {
			return lookupT{}, err
		}
		if res.Cov, err = vlib.AsInts(l[3]); err != nil {
			return lookupT{}, err
		}
	default:
		return lookupT{}, errors.New("bad lookup kind")
	}
	return res, nil
}

func asGtab(x vlib.Sx) (gtabT, error) {
	if a, ok := x.(vlib.Atom); ok && a == "nil" {
		return gtabT{Nil: true}, nil
	}
	l, err := vlib.AsList(x)
	if err != nil || len(l) != 3 {
		return gtabT{}, errors.New("bad gtab")
	}
	var g gtabT
	if g.SL, err = asSL(l[0]); err != nil {
		return gtabT{}, err
	}
	if g.FL, err = asFL(l[1]); err != nil {
		return gtabT{}, err
	}
	ll, err := vlib.AsList(l[2])
	if err != nil {
		return gtabT{}, err
	}
	for _, e := range ll {
		lk, err := asLookup(e)
		if err != nil {
			return gtabT{}, err
		}
		g.LL = append(g.LL, lk)
	}
	return g, nil
}

func asIntMap(x vlib.Sx) (map[int]int, error) {
	l, err := vlib.AsList(x)
	if err != nil {
		return nil, err
	}
	res := map[int]int{}
	for _, e := range l {
		v, err := vlib.AsInts(e)
		if err != nil || len(v) != 2 {
			return nil, errors.New("bad pair")
		}
		res[v[0]] = v[1]
	}
	return res, nil
}

func asCmap(x vlib.Sx) (map[rune]int, error) {
	m, err := asIntMap(x)
	if err != nil {
		return nil, err
	}
	res := map[rune]int{}
	for k, v := range m {
		res[rune(k)] = v
	}
	return res, nil
}

func asOutl(x vlib.Sx) (string, []int, error) {
	l, err := vlib.AsList(x)
	if err != nil || len(l) < 2 {
		return "", nil, errors.New("bad outlines")
	}
	kind, err := vlib.AsAtom(l[0])
	if err != nil {
		return "", nil, err
	}
	switch {
	case kind == "glyf" && len(l) == 3:
		n, err := vlib.AsInt(l[1])
		if err != nil {
			return "", nil, err
		}
		if a, ok := l[2].(vlib.Atom); ok && a == "nil" {
			if n != 1 {
				return "", nil, errors.New("glyf outlines without widths: the harness builds exactly one glyph")
			}
			return "glyf-nil", nil, nil
		}
		w, err := vlib.AsInts(l[2])
		if err != nil {
			return "", nil, err
		}
		if n != len(w) {
			return "", nil, errors.New("glyf outlines: the harness builds one width per glyph")
		}
		return "glyf", w, nil
	case kind == "cff" && len(l) == 2:
		w, err := vlib.AsInts(l[1])
		if err != nil {
			return "", nil, err
		}
		return "cff", w, nil
	}
	return "", nil, errors.New("bad outlines")
}

func asGdef(x vlib.Sx) (map[int]int, error) {
	if a, ok := x.(vlib.Atom); ok && a == "nil" {
		return nil, nil
	}
	return asIntMap(x)
}

func asRunes(x vlib.Sx) ([]rune, error) {
	v, err := vlib.AsInts(x)
	if err != nil {
		return nil, err
	}
	rs := make([]rune, len(v))
	for i, r := range v {
		rs[i] = rune(r)
	}
	return rs, nil
}

func isNilAtom(x vlib.Sx) bool {
	a, ok := x.(vlib.Atom)
	return ok && a == "nil"
}

// ---------------------------------------------------------------- RunCase

// RunCase re-executes one case line and evaluates the property oracle on it.
func RunCase(line string) (impl, fail, sig string, err error) {
	line = strings.TrimPrefix(line, "!")
	items, err := vlib.Parse(line)
	if err != nil {
		return "", "", "", err
	}
	if len(items) == 0 {
		return "", "", "", errors.New("empty case")
	}
	kind, err := vlib.AsAtom(items[0])
	if err != nil {
		return "", "", "", err
	}
	switch kind {
	case "fl":
		c, err := parseFL(items)
		if err != nil {
			return "", "", "", err
		}
		impl, fail, sig = c.run(200)
		return impl, fail, sig, nil
	case "flbin":
		b, sw, err := parseFLBin(items)
		if err != nil {
			return "", "", "", err
		}
		impl, fail, sig = runFLBin(b, sw)
		return impl, fail, sig, nil
	case "kern":
		if len(items) != 2 {
			return "", "", "", errors.New("kern case: want 2 items")
		}
		b, err := vlib.AsBytes(items[1])
		if err != nil {
			return "", "", "", err
		}
		impl, fail, sig = runKern(b)
		return impl, fail, sig, nil
	case "stdlig":
		if len(items) != 2 {
			return "", "", "", errors.New("stdlig case: want 2 items")
		}
		cm, err := asCmap(items[1])
		if err != nil {
			return "", "", "", err
		}
		impl, fail, sig = runStdLig(cm)
		return impl, fail, sig, nil
	case "lay":
		c, err := parseLay(items)
		if err != nil {
			return "", "", "", err
		}
		impl, fail, sig, err = c.run()
		return impl, fail, sig, err
	case "rlay":
		c, err := parseRLay(items)
		if err != nil {
			return "", "", "", err
		}
		impl, fail, sig, _, err = c.run()
		return impl, fail, sig, err
	}
	return "", "", "", fmt.Errorf("unknown case kind %q", kind)
}
