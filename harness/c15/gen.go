package c15

import (
	"fmt"
	"sort"

	"golang.org/x/text/language"
	"seehuhn.de/go/postscript/funit"
	"seehuhn.de/go/sfnt/glyph"
	"seehuhn.de/go/sfnt/kern"
	"seehuhn.de/go/sfnt/opentype/gtab"
	"seehuhn.de/go/sfnt/verifharness/vlib"
)

var rawTagPool = []string{
	"en", "de", "fr", "ja", "zh", "zh-Hant", "zh-Hans", "ar", "ru", "und", "und-Latn", "und-Zzzz", "und-Cyrl",
	"und-Arab", "und-Grek", "en-US", "en-GB", "pt-BR", "pt", "sr-Latn", "sr-Cyrl", "tr", "he", "hi", "el", "ko",
	"th", "vi", "nl", "sv", "und-Latn-x-latn", "und-Deva", "es", "es-419", "it", "pl", "uk", "ro", "ca", "az-Cyrl",
	"und-Hebr", "und-Thai", "mn-Mong", "ur", "fa", "und-Hani",
}

var rawLangPool = []string{
	"en", "en-US", "en-AU", "de", "de-CH", "fr", "fr-CA", "zu", "mi", "und", "ja", "zh-TW", "zh-Hant", "sr-Latn",
	"pt", "pt-PT", "ar-EG", "ru", "tlh", "es-MX", "hi-Latn", "und-Cyrl", "he", "iw", "nb", "no", "sh", "mo", "yue",
}

var ftagPool = []string{"liga", "kern", "calt", "ccmp", "clig", "locl", "mark", "mkmk", "smcp", "test", "dlig", "aalt", "    ", "LIGA"}

var (
	tagPool  []string
	langPool []string
)

func init() {
	// only tags whose String() parses back to the same tag can be written
	// into a case line and replayed
	keep := func(raw []string) []string {
		var out []string
		seen := map[string]bool{}
		for _, s := range raw {
			t, err := language.Parse(s)
			if err != nil {
				continue
			}
			str := t.String()
			t2, err := language.Parse(str)
			if err != nil || t2 != t || seen[str] {
				continue
			}
			seen[str] = true
			out = append(out, str)
		}
		return out
	}
	tagPool = keep(rawTagPool)
	langPool = keep(rawLangPool)
}

func copyDefaults(m map[string]bool) swT {
	s := swT{M: map[string]bool{}}
	for k, v := range m {
		s.M[k] = v
	}
	return s
}

func genSwitches(r *vlib.Rand, gpos bool, hint ...string) swT {
	pool := ftagPool
	if len(hint) > 0 && r.Chance(4, 5) {
		pool = hint
	}
	switch r.Intn(10) {
	case 0, 1:
		return swT{Nil: true}
	case 2:
		return swT{M: map[string]bool{}}
	case 3:
		if gpos {
			return copyDefaults(gtab.GposDefaultFeatures)
		}
		return copyDefaults(gtab.GsubDefaultFeatures)
	case 4, 5:
		// most of the font's features on, some explicitly off
		s := swT{M: map[string]bool{}}
		for _, t := range hint {
			if r.Chance(3, 4) {
				s.M[t] = !r.Chance(1, 5)
			}
		}
		return s
	}
	s := swT{M: map[string]bool{}}
	n := r.Intn(6)
	for i := 0; i < n; i++ {
		s.M[vlib.Pick(r, pool)] = !r.Chance(1, 3)
	}
	return s
}

func featureTags(fl []featureT) []string {
	var res []string
	for _, f := range fl {
		res = append(res, f.Tag)
	}
	return res
}

// genFeatsValid: what a font file delivers (indices in range)
func genFeatsValid(r *vlib.Rand, nFeat int) featsT {
	f := featsT{Req: 0xFFFF}
	if nFeat == 0 {
		return f
	}
	if r.Chance(1, 2) {
		f.Req = r.Intn(nFeat)
	}
	for n := r.Intn(6); n > 0; n-- {
		f.Opt = append(f.Opt, r.Intn(nFeat))
	}
	return f
}

func genFeats(r *vlib.Rand, nFeat int) featsT {
	if r.Chance(3, 4) {
		return genFeatsValid(r, nFeat)
	}
	if r.Chance(1, 4) {
		return featsT{Nil: true}
	}
	var f featsT
	switch r.Intn(10) {
	case 0, 1, 2, 3:
		f.Req = 0xFFFF
	case 4:
		f.Req = nFeat + r.Intn(3) // just out of range
	case 5:
		f.Req = 0
	default:
		f.Req = r.Intn(nFeat + 1)
	}
	n := r.Intn(7)
	for i := 0; i < n; i++ {
		switch r.Intn(16) {
		case 0:
			f.Opt = append(f.Opt, nFeat+r.Intn(3))
		case 1:
			f.Opt = append(f.Opt, 0xFFFF)
		default:
			f.Opt = append(f.Opt, r.Intn(nFeat+1))
		}
	}
	return f
}

func genFeatureList(r *vlib.Rand, nFeat, nLookups int) []featureT {
	fl := make([]featureT, nFeat)
	for i := range fl {
		fl[i].Tag = vlib.Pick(r, ftagPool)
		n := vlib.Pick(r, []int{0, 1, 1, 2, 3, 5})
		for j := 0; j < n; j++ {
			if r.Chance(1, 10) || nLookups == 0 {
				fl[i].Lookups = append(fl[i].Lookups, nLookups+r.Intn(3))
			} else {
				fl[i].Lookups = append(fl[i].Lookups, r.Intn(nLookups))
			}
		}
	}
	return fl
}

func genScriptList(r *vlib.Rand, nSys, nFeat int) []slEntryT {
	perm := make([]int, len(tagPool))
	for i := range perm {
		perm[i] = i
	}
	for i := len(perm) - 1; i > 0; i-- {
		j := r.Intn(i + 1)
		perm[i], perm[j] = perm[j], perm[i]
	}
	if nSys > len(perm) {
		nSys = len(perm)
	}
	sl := make([]slEntryT, nSys)
	for i := range sl {
		sl[i] = slEntryT{Tag: tagPool[perm[i]], F: genFeats(r, nFeat)}
	}
	return sl
}

func genLang(r *vlib.Rand, sl []slEntryT) string {
	if len(sl) > 0 && r.Chance(2, 5) {
		return sl[r.Intn(len(sl))].Tag
	}
	return vlib.Pick(r, langPool)
}

func genFL(r *vlib.Rand) flCase {
	var c flCase
	c.Rev1, c.Rev2 = r.Bool(), r.Bool()
	nSys := vlib.Pick(r, []int{0, 1, 2, 2, 3, 5, 20, r.Range(1, 20), r.Range(1, 20), r.Range(2, 20), r.Range(2, 20), r.Range(2, 20)})
	nFeat := vlib.Pick(r, []int{0, 1, 2, 3, r.Range(1, 12), r.Range(1, 12), r.Range(1, 12), r.Range(1, 12), r.Range(1, 12), r.Range(1, 12), r.Range(1, 12)})
	c.NLookups = vlib.Pick(r, []int{0, 1, 2, 3, r.Range(1, 40), r.Range(1, 40), r.Range(1, 40), r.Range(1, 40), r.Range(1, 40), r.Range(1, 40), r.Range(1, 40), r.Range(1, 40), r.Range(1, 40), 65535, 65536, 65537})
	nl := c.NLookups
	if nl > 40 {
		nl = 40
	}
	c.FL = genFeatureList(r, nFeat, nl)
	if c.NLookups > 65000 {
		for i := range c.FL {
			if r.Chance(1, 3) {
				c.FL[i].Lookups = append(c.FL[i].Lookups, vlib.Pick(r, []int{65534, 65535}))
			}
		}
	}
	c.SL = genScriptList(r, nSys, nFeat)
	c.SW = genSwitches(r, r.Bool(), featureTags(c.FL)...)
	c.Lang = genLang(r, c.SL)
	return c
}

func addFL(run *vlib.Run, c flCase, repeats int) {
	line, err := c.line()
	if err != nil {
		run.Fail(run.N, fmt.Sprint(c), "harness: "+err.Error(), "c15-harness")
		return
	}
	impl, fail, sig := c.run(repeats)
	labels := []string{"kind:fl", fmt.Sprintf("fl-systems:%s", bucket(len(c.SL)))}
	if c.SW.Nil {
		labels = append(labels, "fl-switches:nil")
	} else {
		labels = append(labels, "fl-switches:map")
	}
	matched := false
	for _, e := range c.SL {
		if e.Tag == c.Lang {
			matched = true
		}
		if e.F.Nil {
			labels = append(labels, "fl-nil-system")
			break
		}
	}
	if matched {
		labels = append(labels, "fl-lang:listed")
	} else {
		labels = append(labels, "fl-lang:other")
	}
	if len(c.FL) > 65535 || c.NLookups > 65535 {
		labels = append(labels, "fl-beyond-16bit")
	}
	idx := run.Add(line, impl, len(c.SL) >= 2 && impl != "(ok)" && impl != "panic", labels...)
	if fail != "" {
		run.Fail(idx, line, fail, sig)
	}
}

func bucket(n int) string {
	switch {
	case n <= 2:
		return fmt.Sprint(n)
	case n <= 5:
		return "3-5"
	case n <= 19:
		return "6-19"
	}
	return "20+"
}

// ---------------------------------------------------------------- kern tables

var kernFlags = []int{0x01, 0x01, 0x01, 0x01, 0x01, 0x03, 0x03, 0x09, 0x09, 0x0B, 0x01, 0x03, 0x09, 0x00, 0x05, 0x11, 0x81, 0x02, 0x08, 0x07}

func genKernTable(r *vlib.Rand, nGlyphs int) []byte {
	nTables := vlib.Pick(r, []int{0, 1, 1, 2, 2, 3, 4})
	b := []byte{0, 0, byte(nTables >> 8), byte(nTables)}
	if r.Chance(1, 25) {
		b[1] = 1 // unsupported version
	}
	if r.Chance(1, 25) {
		b[3] += byte(r.Range(1, 3)) // more tables announced than present
	}
	for i := 0; i < nTables; i++ {
		np := vlib.Pick(r, []int{0, 1, 2, 3, 4, r.Intn(9), r.Intn(9)})
		length := 14 + 6*np
		switch r.Intn(30) {
		case 0:
			length = r.Intn(14) // too short
		case 1:
			length += 6 * r.Range(1, 3) // slack after the records
		case 2:
			if np > 0 {
				length -= 6 // records overlap the next subtable
			}
		}
		ver, format := 0, 0
		if r.Chance(1, 20) {
			ver = 1
		}
		if r.Chance(1, 15) {
			format = vlib.Pick(r, []int{1, 2, 3})
		}
		flags := vlib.Pick(r, kernFlags)
		b = append(b, byte(ver>>8), byte(ver), byte(length>>8), byte(length), byte(format), byte(flags))
		b = append(b, byte(np>>8), byte(np), 0, 0, 0, 0, 0, 0)
		for j := 0; j < np; j++ {
			l, rr := r.Intn(nGlyphs), r.Intn(nGlyphs)
			if r.Chance(1, 30) {
				l = vlib.Pick(r, []int{255, 256, 65535})
			}
			v := vlib.Pick(r, []int{0, -1, 1, -10, 10, 100, -100, r.Range(-400, 400), r.Range(-400, 400), 32767, -32768, 30000, -30000})
			b = append(b, byte(l>>8), byte(l), byte(rr>>8), byte(rr), byte(uint16(v)>>8), byte(uint16(v)))
		}
		if length > 14+6*np {
			b = append(b, make([]byte, length-14-6*np)...)
		}
	}
	return b
}

func mutate(r *vlib.Rand, b []byte) []byte {
	b = append([]byte(nil), b...)
	switch r.Intn(4) {
	case 0:
		if len(b) > 0 {
			b = b[:r.Intn(len(b))]
		}
	case 1:
		for k := r.Range(1, 3); k > 0 && len(b) > 0; k-- {
			b[r.Intn(len(b))] = byte(r.Uint64())
		}
	case 2:
		if len(b) > 0 {
			b[r.Intn(len(b))] ^= 1 << r.Intn(8)
		}
	default:
		b = append(b, r.Bytes(r.Intn(8))...)
	}
	return b
}

func genKernBytes(r *vlib.Rand, nGlyphs int) ([]byte, string) {
	switch r.Intn(10) {
	case 0:
		// what Info.Encode writes
		info := kern.Info{}
		for n := r.Intn(10); n > 0; n-- {
			info[glyph.Pair{Left: glyph.ID(r.Intn(nGlyphs)), Right: glyph.ID(r.Intn(nGlyphs))}] = 0
		}
		for p := range info {
			_ = p
		}
		keys := make([]glyph.Pair, 0, len(info))
		for p := range info {
			keys = append(keys, p)
		}
		sort.Slice(keys, func(i, j int) bool {
			if keys[i].Left != keys[j].Left {
				return keys[i].Left < keys[j].Left
			}
			return keys[i].Right < keys[j].Right
		})
		for _, p := range keys {
			info[p] = kernValue(r)
		}
		return info.Encode(), "kern-src:encode"
	case 1, 2:
		return mutate(r, genKernTable(r, nGlyphs)), "kern-src:mutated"
	case 3:
		return r.Bytes(r.Intn(40)), "kern-src:random"
	}
	return genKernTable(r, nGlyphs), "kern-src:structured"
}

func kernValue(r *vlib.Rand) funit.Int16 {
	return funit.Int16(vlib.Pick(r, []int{0, -1, 1, -50, 50, r.Range(-400, 400), 32767, -32768}))
}

func addKern(run *vlib.Run, b []byte, src string) {
	line := vlib.Line(vlib.Atom("kern"), vlib.Hex(b))
	impl, fail, sig := runKern(b)
	wf, values, overflow := refKern(b)
	labels := []string{"kind:kern", src}
	if wf {
		labels = append(labels, "kern-wellformed")
	}
	if len(overflow) > 0 {
		labels = append(labels, "kern-int16-overflow")
	}
	if impl == "err" {
		labels = append(labels, "kern-rejected")
	}
	if len(b) >= 4 {
		labels = append(labels, fmt.Sprintf("kern-tables:%s", bucket(int(b[2])<<8|int(b[3]))))
	}
	idx := run.Add(line, impl, wf && len(values) >= 2, labels...)
	if fail != "" {
		run.Fail(idx, line, fail, sig)
	}
}

// ---------------------------------------------------------------- fonts and strings

var runePool = []rune{'a', 'b', 'c', 'd', 'e', 'f', 'f', 'i', 'l', 'x', 0x301, 0x308, 0x1F600, 0xFB00, 0xFB01, 0xFB02, 0xFB03, 0xFB04, 0xFFFD, 0x20}

func genCmap(r *vlib.Rand, nGlyphs int, allowBad bool, bmpOnly bool) map[rune]int {
	cm := map[rune]int{}
	n := r.Range(1, 12)
	for i := 0; i < n; i++ {
		ru := vlib.Pick(r, runePool)
		if bmpOnly && ru > 0xFFFF {
			continue
		}
		g := r.Intn(nGlyphs)
		if allowBad && r.Chance(1, 40) {
			g = nGlyphs + r.Intn(2)
		}
		cm[ru] = g
	}
	return cm
}

func genString(r *vlib.Rand, cm map[rune]int) []rune {
	keys := make([]rune, 0, len(cm))
	for k := range cm {
		keys = append(keys, k)
	}
	sort.Slice(keys, func(i, j int) bool { return keys[i] < keys[j] })
	n := vlib.Pick(r, []int{0, 1, 2, 3, r.Intn(13), r.Intn(13)})
	var s []rune
	for len(s) < n {
		switch {
		case r.Chance(1, 8):
			s = append(s, vlib.Pick(r, runePool)) // possibly unmapped
		case r.Chance(1, 8):
			s = append(s, []rune(vlib.Pick(r, []string{"ffi", "ffl", "ff", "fi", "fl", "fffi"}))...)
		default:
			s = append(s, keys[r.Intn(len(keys))])
		}
	}
	// canonical form of the string as Go decodes it
	return []rune(string(s))
}

func genWidths(r *vlib.Rand, n int, unsignedOnly bool) []int {
	w := make([]int, n)
	fixed := r.Chance(1, 6)
	fw := r.Range(100, 1200)
	for i := range w {
		switch {
		case fixed:
			w[i] = fw
		case r.Chance(1, 15):
			w[i] = 0
		case r.Chance(1, 40) && !unsignedOnly:
			w[i] = vlib.Pick(r, []int{-1, 32767, -32768, 32000})
		default:
			w[i] = r.Range(1, 2000)
		}
	}
	return w
}

func genGdef(r *vlib.Rand, nGlyphs int) map[int]int {
	if r.Chance(1, 2) {
		return nil
	}
	g := map[int]int{}
	for i := 0; i < nGlyphs; i++ {
		if r.Chance(1, 3) {
			g[i] = vlib.Pick(r, []int{1, 2, 3, 3, 4})
		}
	}
	return g
}

func genPairLookup(r *vlib.Rand, nGlyphs int) lookupT {
	lk := lookupT{Kind: "pair"}
	seen := map[kpair]bool{}
	for n := r.Intn(8); n > 0; n-- {
		p := kpair{r.Intn(nGlyphs), r.Intn(nGlyphs)}
		if seen[p] {
			continue
		}
		seen[p] = true
		lk.Pairs = append(lk.Pairs, pairT{p.l, p.r, vlib.Pick(r, []int{0, -1, 5, -40, r.Range(-300, 300), 32767, -32768})})
	}
	return lk
}

func genLigaLookup(r *vlib.Rand, nGlyphs int) lookupT {
	lk := lookupT{Kind: "liga"}
	firsts := map[int]bool{}
	for n := r.Range(1, 3); n > 0; n-- {
		firsts[r.Intn(nGlyphs)] = true
	}
	keys := make([]int, 0, len(firsts))
	for k := range firsts {
		keys = append(keys, k)
	}
	sort.Ints(keys)
	for _, k := range keys {
		s := ligSetT{First: k}
		for m := r.Range(1, 3); m > 0; m-- {
			var in []int
			for j := r.Intn(3); j >= 0; j-- {
				in = append(in, r.Intn(nGlyphs))
			}
			if r.Chance(1, 12) {
				in = nil
			}
			s.Ligs = append(s.Ligs, ligT{In: in, Out: r.Intn(nGlyphs)})
		}
		lk.Sets = append(lk.Sets, s)
	}
	return lk
}

func genSingle(r *vlib.Rand, kind string, nGlyphs int) lookupT {
	lk := lookupT{Kind: kind, Flags: vlib.Pick(r, []int{0, 0, 2, 4, 8, 0x0200}), Arg: r.Range(1, 5)}
	seen := map[int]bool{}
	for n := r.Range(1, 3); n > 0; n-- {
		g := r.Intn(nGlyphs + 3)
		if !seen[g] {
			seen[g] = true
			lk.Cov = append(lk.Cov, g)
		}
	}
	sort.Ints(lk.Cov)
	return lk
}

func genGtab(r *vlib.Rand, gpos bool, nGlyphs int, foreign bool) gtabT {
	switch r.Intn(5) {
	case 0:
		return gtabT{Nil: true}
	}
	var g gtabT
	nLook := r.Intn(5)
	for i := 0; i < nLook; i++ {
		switch {
		case r.Chance(1, 3):
			g.LL = append(g.LL, lookupT{Kind: "none"})
		case foreign && r.Chance(1, 2):
			if gpos {
				g.LL = append(g.LL, genSingle(r, "pos1", nGlyphs))
			} else {
				g.LL = append(g.LL, genSingle(r, "sub1", nGlyphs))
			}
		case gpos:
			g.LL = append(g.LL, genPairLookup(r, nGlyphs))
		default:
			g.LL = append(g.LL, genLigaLookup(r, nGlyphs))
		}
	}
	nFeat := r.Intn(5)
	g.FL = genFeatureList(r, nFeat, nLook)
	// favour tags the default sets know
	for i := range g.FL {
		if r.Chance(1, 2) {
			if gpos {
				g.FL[i].Tag = vlib.Pick(r, []string{"kern", "mark", "mkmk"})
			} else {
				g.FL[i].Tag = vlib.Pick(r, []string{"liga", "calt", "ccmp", "clig", "locl"})
			}
		}
	}
	g.SL = genScriptList(r, vlib.Pick(r, []int{0, 1, 1, 2, 3}), nFeat)
	return g
}

func genLay(r *vlib.Rand, foreign bool) layCase {
	var c layCase
	c.Rev1, c.Rev2 = r.Bool(), r.Bool()
	n := r.Range(1, 12)
	c.Font.Outl = vlib.Pick(r, []string{"glyf", "glyf", "cff", "cff", "glyf-nil"})
	if c.Font.Outl != "glyf-nil" {
		c.Font.Widths = genWidths(r, n, false)
	}
	c.Font.Cmap = genCmap(r, n, true, false)
	c.Font.Gdef = genGdef(r, n)
	c.Font.Gsub = genGtab(r, false, n, foreign)
	c.Font.Gpos = genGtab(r, true, n, foreign)
	c.GSW = genSwitches(r, false, featureTags(c.Font.Gsub.FL)...)
	c.PSW = genSwitches(r, true, featureTags(c.Font.Gpos.FL)...)
	c.Runes = genString(r, c.Font.Cmap)
	var sl []slEntryT
	if !c.Font.Gsub.Nil {
		sl = c.Font.Gsub.SL
	}
	c.Lang = genLang(r, sl)
	return c
}

func addLay(run *vlib.Run, c layCase) {
	line, err := c.line()
	if err != nil {
		run.Fail(run.N, fmt.Sprint(c), "harness: "+err.Error(), "c15-harness")
		return
	}
	impl, fail, sig, err := c.run()
	if err != nil {
		run.Fail(run.N, line, "harness: "+err.Error(), "c15-harness")
		return
	}
	gids := make([]int, len(c.Runes))
	for i, r := range c.Runes {
		gids[i] = c.Font.Cmap[r]
	}
	labels := []string{"kind:lay", "lay-outlines:" + c.Font.Outl, "lay-len:" + bucket(len(c.Runes))}
	norule := c.Font.noRuleApplies(gids)
	if norule {
		labels = append(labels, "lay-no-rule-applies")
	}
	if c.Font.Gsub.Nil {
		labels = append(labels, "lay-gsub:nil")
	}
	if c.Font.Gpos.Nil {
		labels = append(labels, "lay-gpos:nil")
	}
	if c.Font.Gdef != nil {
		labels = append(labels, "lay-gdef")
	}
	if impl == "panic" {
		labels = append(labels, "lay-panic")
	}
	if c.oracleOnly() {
		labels = append(labels, "lay-oracle-only")
	}
	if c.GSW.Nil {
		labels = append(labels, "lay-gsub-switches:nil")
	}
	idx := run.Add(line, impl, len(c.Runes) >= 2 && impl != "panic" && (!c.Font.Gsub.Nil || !c.Font.Gpos.Nil), labels...)
	if fail != "" {
		run.Fail(idx, line, fail, sig)
	}
}

func genRLay(r *vlib.Rand) rlayCase {
	var c rlayCase
	c.Rev1, c.Rev2 = r.Bool(), r.Bool()
	var n int
	if r.Chance(1, 4) {
		c.Outl = "cff"
		n = cffBaseGlyphs()
	} else {
		c.Outl = "glyf"
		n = r.Range(2, 10)
	}
	c.Widths = genWidths(r, n, true)
	c.Cmap = genCmap(r, n, false, false)
	if r.Chance(1, 2) {
		// make the ligature machinery likely
		for _, ru := range []rune{'f', 'i', 'l'} {
			c.Cmap[ru] = r.Range(1, n-1)
		}
		for _, ru := range []rune{0xFB00, 0xFB01, 0xFB02, 0xFB03, 0xFB04} {
			if r.Chance(2, 3) {
				c.Cmap[ru] = r.Range(1, n-1)
			}
		}
	}
	if r.Chance(1, 3) {
		c.Gdef = map[int]int{}
		for i := 0; i < n; i++ {
			if r.Chance(1, 4) {
				c.Gdef[i] = vlib.Pick(r, []int{1, 2, 3, 3})
			}
		}
		if len(c.Gdef) == 0 {
			c.Gdef[n-1] = 3
		}
	}
	switch r.Intn(8) {
	case 0:
		c.Kern = nil
	case 1:
		c.Kern = mutate(r, genKernTable(r, n))
	default:
		c.Kern = genKernTable(r, n)
	}
	if len(c.Kern) == 0 {
		c.Kern = nil // a zero-length table cannot be stored in an sfnt file
	}
	c.GSW = genSwitches(r, false)
	c.PSW = genSwitches(r, true)
	c.Runes = genString(r, c.Cmap)
	c.Lang = vlib.Pick(r, langPool)
	return c
}

func addRLay(run *vlib.Run, c rlayCase) {
	impl, fail, sig, fixed, err := c.run()
	line := c.line(fixed)
	if err != nil {
		run.Fail(run.N, line, "harness: "+err.Error(), "c15-harness")
		return
	}
	labels := []string{"kind:rlay", "rlay-outlines:" + c.Outl, "rlay-len:" + bucket(len(c.Runes))}
	if c.Kern == nil {
		labels = append(labels, "rlay-kern:none")
	} else if wf, v, _ := refKern(c.Kern); wf {
		labels = append(labels, "rlay-kern:wellformed")
		if len(v) > 0 {
			labels = append(labels, "rlay-kern:pairs")
		}
	} else {
		labels = append(labels, "rlay-kern:illformed")
	}
	if fixed {
		labels = append(labels, "rlay-fixed-pitch")
	}
	nlig := len(availableLigs(func(r rune) int { return c.Cmap[r] }))
	if nlig > 0 {
		labels = append(labels, "rlay-has-ligatures")
	}
	if impl == "err" {
		labels = append(labels, "rlay-read-error")
	}
	_, ok := c.expected(fixed)
	if ok {
		labels = append(labels, "rlay-oracle-exact")
	}
	idx := run.Add(line, impl, ok && len(c.Runes) >= 2 && (c.Kern != nil || nlig > 0), labels...)
	if fail != "" {
		run.Fail(idx, line, fail, sig)
	}
}

func genStdLigCmap(r *vlib.Rand) map[rune]int {
	cm := map[rune]int{}
	for _, ru := range []rune{'f', 'i', 'l', 0xFB00, 0xFB01, 0xFB02, 0xFB03, 0xFB04, 'a'} {
		switch r.Intn(6) {
		case 0:
			// unmapped
		case 1:
			cm[ru] = 0 // mapped to .notdef: counts as missing
		default:
			cm[ru] = r.Range(1, 7)
		}
	}
	return cm
}

func addStdLig(run *vlib.Run, cm map[rune]int) {
	line := vlib.Line(vlib.Atom("stdlig"), cmapSx(cm))
	impl, fail, sig := runStdLig(cm)
	n := len(availableLigs(func(r rune) int { return cm[r] }))
	idx := run.Add(line, impl, n >= 1, "kind:stdlig", fmt.Sprintf("stdlig-available:%d", n))
	if fail != "" {
		run.Fail(idx, line, fail, sig)
	}
}

// Gen writes the run for the given tier.
func Gen(run *vlib.Run, seed uint64, tier string) {
	run.Rule = "fl: script list with >= 2 language systems and a non-empty selection; kern: well-formed table with >= 2 distinct pairs; stdlig: font containing >= 1 standard ligature; lay: string of >= 2 characters on a font with GSUB or GPOS, no panic; rlay: >= 2 characters, font file with a kern table or ligatures, expected layout computable from the tables; distinct by case line"
	r := vlib.NewRand(seed)

	rf := r.Fork("fl")
	nfl := vlib.Count(tier, 2500, 60000)
	full := vlib.Count(tier, 150, 3000) // cases with the full 200 repetitions
	for i := 0; i < nfl; i++ {
		c := genFL(rf)
		rep := 5
		if len(c.SL) >= 2 && full > 0 {
			rep = 200
			full--
		}
		addFL(run, c, rep)
	}
	if tier == "thorough" {
		// feature lists at and beyond the 16-bit limit
		for _, n := range []int{65535, 65536, 65537} {
			c := genFL(rf)
			c.FL = genFeatureList(rf, n, 5)
			c.SL = genScriptList(rf, 3, n)
			c.NLookups = 5
			addFL(run, c, 2)
		}
	}

	// exhaustive small domain: two language systems, two features, every
	// combination of required index, optional list, switch values, lookup count
	nex := 0
	for _, req := range []int{0xFFFF, 0, 1, 2} {
		for _, opt := range [][]int{nil, {0}, {1}, {0, 1}, {1, 0, 1}, {2}} {
			for sw := 0; sw < 9; sw++ {
				for _, nl := range []int{0, 1, 2, 3} {
					c := flCase{Lang: "zu", NLookups: nl,
						SL: []slEntryT{{Tag: "fr", F: featsT{Req: 1, Opt: []int{0}}}, {Tag: "de", F: featsT{Req: req, Opt: opt}}},
						FL: []featureT{{Tag: "liga", Lookups: []int{1, 0}}, {Tag: "kern", Lookups: []int{2, 1, 2}}},
						SW: swT{M: map[string]bool{}}}
					switch sw % 3 {
					case 1:
						c.SW.M["liga"] = true
					case 2:
						c.SW.M["liga"] = false
					}
					switch sw / 3 {
					case 1:
						c.SW.M["kern"] = true
					case 2:
						c.SW.M["kern"] = false
					}
					c.Rev1, c.Rev2 = nex%2 == 0, nex%3 == 0
					addFL(run, c, 3)
					nex++
				}
			}
		}
	}
	run.Extra["fl_exhaustive_small"] = nex

	genFLBin(run, r.Fork("flbin"), tier)

	rk := r.Fork("kern")
	for i, n := 0, vlib.Count(tier, 3000, 100000); i < n; i++ {
		b, src := genKernBytes(rk, rk.Range(1, 6))
		addKern(run, b, src)
	}
	// many subtables, many pairs
	for i, n := 0, vlib.Count(tier, 3, 40); i < n; i++ {
		info := kern.Info{}
		for j := 0; j < vlib.Count(tier, 500, 10000); j++ {
			info[glyph.Pair{Left: glyph.ID(rk.Intn(300)), Right: glyph.ID(rk.Intn(300))}] = kernValue(rk)
		}
		// Encode iterates over a map; the records are sorted afterwards
		addKern(run, info.Encode(), "kern-src:encode-large")
	}

	// adversarial (C02): subtables of length 14 that each announce 65535
	// pairs; reading must stay linear in the size of the table
	for _, n := range []int{28100, 30000} {
		b := []byte{0, 0, byte(n >> 8), byte(n)}
		for i := 0; i < n; i++ {
			b = append(b, 0, 0, 0, 14, 0, 1, 0xFF, 0xFF, 0, 0, 0, 0, 0, 0)
		}
		addKern(run, b, "kern-src:overlapping-adversarial")
	}

	// exhaustive: every coverage byte on the second of two subtables
	for f := 0; f < 256; f++ {
		b := []byte{0, 0, 0, 2,
			0, 0, 0, 26, 0, 1, 0, 2, 0, 0, 0, 0, 0, 0, 0, 1, 0, 2, 0, 10, 0, 3, 0, 4, 0xFF, 0xF9,
			0, 0, 0, 26, 0, byte(f), 0, 2, 0, 0, 0, 0, 0, 0, 0, 1, 0, 2, 0, 5, 0, 5, 0, 6, 0, 9}
		addKern(run, b, "kern-src:all-flags")
	}
	run.Extra["kern_exhaustive_flags"] = 256

	rs := r.Fork("stdlig")
	for i, n := 0, vlib.Count(tier, 400, 8000); i < n; i++ {
		addStdLig(run, genStdLigCmap(rs))
	}

	rl := r.Fork("lay")
	for i, n := 0, vlib.Count(tier, 2500, 60000); i < n; i++ {
		addLay(run, genLay(rl, i%5 == 4))
	}

	rr := r.Fork("rlay")
	for i, n := 0, vlib.Count(tier, 500, 12000); i < n; i++ {
		addRLay(run, genRLay(rr))
	}
}
