package c15

// Oracle-only stream "flbin": feature selection on GSUB tables READ FROM BYTES
// whose feature list is laid out the way font compilers lay it out: several
// feature records (different tags) may point at ONE feature table.  The
// library's own encoder never shares feature tables, so these tables are made
// by encoding a table with the library and re-pointing record offsets; the
// expected content is read from the bytes by a reader written from the OpenType
// description of the FeatureList (count, records = tag + offset, feature
// table = params offset, lookup count, lookup indices).
//
//	!flbin xHEX ((tag on|off) ...)
//
// The script list has one language system (und-Zzzz, DFLT script) without a
// required feature and with every feature optional, so that the selection is
// exactly: the in-range lookups of the features whose tag is switched on.

import (
	"bytes"
	"errors"
	"fmt"
	"sort"

	"golang.org/x/text/language"
	"seehuhn.de/go/sfnt/glyph"
	"seehuhn.de/go/sfnt/opentype/coverage"
	"seehuhn.de/go/sfnt/opentype/gtab"
	"seehuhn.de/go/sfnt/verifharness/vlib"
)

type specFeature struct {
	tag     string
	lookups []int
}

// specFeatureList reads the feature list of a GSUB/GPOS table from its bytes.
func specFeatureList(b []byte) ([]specFeature, int, error) {
	u16 := func(p int) (int, error) {
		if p < 0 || p+2 > len(b) {
			return 0, errors.New("short table")
		}
		return int(b[p])<<8 | int(b[p+1]), nil
	}
	flOff, err := u16(6)
	if err != nil {
		return nil, 0, err
	}
	llOff, err := u16(8)
	if err != nil {
		return nil, 0, err
	}
	nLookups, err := u16(llOff)
	if err != nil {
		return nil, 0, err
	}
	n, err := u16(flOff)
	if err != nil {
		return nil, 0, err
	}
	var out []specFeature
	for i := 0; i < n; i++ {
		rec := flOff + 2 + 6*i
		if rec+6 > len(b) {
			return nil, 0, errors.New("short feature list")
		}
		off, _ := u16(rec + 4)
		ft := flOff + off
		cnt, err := u16(ft + 2)
		if err != nil {
			return nil, 0, err
		}
		f := specFeature{tag: string(b[rec : rec+4])}
		for k := 0; k < cnt; k++ {
			l, err := u16(ft + 4 + 2*k)
			if err != nil {
				return nil, 0, err
			}
			f.lookups = append(f.lookups, l)
		}
		out = append(out, f)
	}
	return out, nLookups, nil
}

func runFLBin(data []byte, sw swT) (impl, fail, sig string) {
	spec, nLookups, err := specFeatureList(data)
	if err != nil {
		return "harness-error", err.Error(), "c15-harness"
	}
	var info *gtab.Info
	var rerr error
	func() {
		defer func() {
			if e := recover(); e != nil {
				rerr = fmt.Errorf("panic: %v", e)
			}
		}()
		info, rerr = gtab.Read(bytes.NewReader(data), gtab.TypeGsub)
	}()
	if rerr != nil || info == nil {
		return "err", fmt.Sprintf("gtab.Read rejects a well-formed GSUB table with shared feature tables: %v", rerr), "c15-flbin-rejected"
	}
	// the feature list as read equals the feature list in the bytes
	if len(info.FeatureList) != len(spec) {
		return "ok", fmt.Sprintf("%d features read, the table has %d feature records", len(info.FeatureList), len(spec)), "c15-featurelist-binary"
	}
	for i, f := range info.FeatureList {
		got := make([]int, len(f.Lookups))
		for k, l := range f.Lookups {
			got[k] = int(l)
		}
		if f.Tag != spec[i].tag || fmt.Sprint(got) != fmt.Sprint(spec[i].lookups) {
			return "ok", fmt.Sprintf("feature record %d: read as %q %v, the bytes say %q %v", i, f.Tag, got, spec[i].tag, spec[i].lookups), "c15-featurelist-binary"
		}
	}
	// the selection
	m := sw.goMap()
	res, obs := callFindLookups(info, language.MustParse("und-Zzzz"), m)
	if obs == "panic" {
		return obs, "FindLookups panicked", "c15-findlookups-panic"
	}
	set := map[int]bool{}
	for _, f := range spec {
		if m[f.tag] {
			for _, l := range f.lookups {
				if l < nLookups {
					set[l] = true
				}
			}
		}
	}
	var want []int
	for l := range set {
		want = append(want, l)
	}
	sort.Ints(want)
	if !sameInts(want, res) {
		return obs, fmt.Sprintf("selection %v; the features switched on in %v select %v (feature list in the bytes: %v)", res, m, want, spec), "c15-findlookups-selection-binary"
	}
	return obs, "", ""
}

var flbinTags = []string{"liga", "dlig", "kern", "calt", "clig", "smcp", "c2sc", "ss01"}

func genFLBin(run *vlib.Run, r *vlib.Rand, tier string) {
	n := vlib.Count(tier, 150, 3000)
	for i := 0; i < n; i++ {
		nf := r.Range(2, 6)
		nl := r.Range(1, 5)
		info := &gtab.Info{ScriptList: gtab.ScriptListInfo{}}
		tags := append([]string(nil), flbinTags...)
		for k := len(tags) - 1; k > 0; k-- {
			j := r.Intn(k + 1)
			tags[k], tags[j] = tags[j], tags[k]
		}
		tags = tags[:nf]
		sort.Strings(tags) // feature records are sorted by tag
		var opt []gtab.FeatureIndex
		for k := 0; k < nf; k++ {
			var ls []gtab.LookupIndex
			for c := r.Range(1, 3); c > 0; c-- {
				ls = append(ls, gtab.LookupIndex(r.Intn(nl+1))) // now and then out of range
			}
			info.FeatureList = append(info.FeatureList, &gtab.Feature{Tag: tags[k], Lookups: ls})
			opt = append(opt, gtab.FeatureIndex(k))
		}
		info.ScriptList[language.MustParse("und-Zzzz")] = &gtab.Features{Required: 0xFFFF, Optional: opt}
		for k := 0; k < nl; k++ {
			info.LookupList = append(info.LookupList, &gtab.LookupTable{
				Meta:      &gtab.LookupMetaInfo{LookupType: 1},
				Subtables: []gtab.Subtable{&gtab.Gsub1_1{Cov: coverage.Set{glyph.ID(1 + k): true}, Delta: 1}},
			})
		}
		var data []byte
		func() {
			defer func() { recover() }()
			data = info.Encode()
		}()
		if data == nil {
			continue
		}
		// re-point feature records at other records' feature tables
		flOff := int(data[6])<<8 | int(data[7])
		label := "flbin:unshared"
		switch r.Intn(4) {
		case 0: // as encoded
		case 1: // every record shares the first table
			for k := 1; k < nf; k++ {
				copy(data[flOff+2+6*k+4:], data[flOff+2+4:flOff+2+6])
			}
			label = "flbin:all-share-one"
		default:
			for c := r.Range(1, 2); c > 0; c-- {
				a, b := r.Intn(nf), r.Intn(nf)
				copy(data[flOff+2+6*b+4:flOff+2+6*b+6], data[flOff+2+6*a+4:flOff+2+6*a+6])
			}
			label = "flbin:some-shared"
		}
		sw := swT{M: map[string]bool{}}
		for _, t := range tags {
			switch r.Intn(3) {
			case 0:
				sw.M[t] = true
			case 1:
				sw.M[t] = false
			}
		}
		if len(sw.M) == 0 {
			sw.M[tags[0]] = true
		}
		line := vlib.Line(vlib.Atom("!flbin"), vlib.Hex(data), sw.sx())
		impl, fail, sig := runFLBin(data, sw)
		idx := run.Add(line, impl, true, "stream:flbin", label, "oracle-only")
		if fail != "" {
			run.Fail(idx, line, fail, sig)
		}
	}
}

func parseFLBin(items []vlib.Sx) ([]byte, swT, error) {
	if len(items) != 3 {
		return nil, swT{}, errors.New("flbin case: want 3 items")
	}
	b, err := vlib.AsBytes(items[1])
	if err != nil {
		return nil, swT{}, err
	}
	sw, err := asSW(items[2])
	if err != nil {
		return nil, swT{}, err
	}
	if sw.M == nil {
		return nil, swT{}, errors.New("flbin case: explicit switches wanted")
	}
	return b, sw, nil
}
