package c15

import (
	"bytes"
	"errors"
	"fmt"
	"sort"
	"sync"
	"time"

	"golang.org/x/text/language"
	"seehuhn.de/go/postscript/funit"
	"seehuhn.de/go/sfnt"
	"seehuhn.de/go/sfnt/cff"
	"seehuhn.de/go/sfnt/cmap"
	"seehuhn.de/go/sfnt/glyf"
	"seehuhn.de/go/sfnt/glyph"
	"seehuhn.de/go/sfnt/internal/debug"
	"seehuhn.de/go/sfnt/opentype/gtab"
	"seehuhn.de/go/sfnt/verifharness/vlib"
)

// ================================================================ FindLookups

type flCase struct {
	Rev1, Rev2 bool
	Lang       string
	SL         []slEntryT
	FL         []featureT
	NLookups   int
	SW         swT
}

func (c flCase) line() (string, error) {
	lang, err := parseTag(c.Lang)
	if err != nil {
		return "", err
	}
	midx, _, err := matcherIndex(c.SL, lang)
	if err != nil {
		return "", err
	}
	return vlib.Line(vlib.Atom("fl"), vlib.Bool(true), vlib.Bool(c.Rev1), vlib.Bool(c.Rev2), vlib.Int(midx),
		vlib.Atom(c.Lang), slSx(c.SL), flSx(c.FL), vlib.Int(c.NLookups), c.SW.sx()), nil
}

func parseFL(items []vlib.Sx) (flCase, error) {
	var c flCase
	if len(items) != 10 {
		return c, errors.New("fl case: want 10 items")
	}
	var err error
	if c.Rev1, err = vlib.AsBool(items[2]); err != nil {
		return c, err
	}
	if c.Rev2, err = vlib.AsBool(items[3]); err != nil {
		return c, err
	}
	if c.Lang, err = vlib.AsAtom(items[5]); err != nil {
		return c, err
	}
	if c.SL, err = asSL(items[6]); err != nil {
		return c, err
	}
	if c.FL, err = asFL(items[7]); err != nil {
		return c, err
	}
	if c.NLookups, err = vlib.AsInt(items[8]); err != nil {
		return c, err
	}
	if c.SW, err = asSW(items[9]); err != nil {
		return c, err
	}
	return c, nil
}

// wantedLookups states the selection rule directly: the in-range lookups of
// the required feature and of every optional feature that is switched on.
func wantedLookups(f featsT, fl []featureT, nLookups int, sw map[string]bool) []int {
	set := map[int]bool{}
	if f.Req >= 0 && f.Req < len(fl) {
		for _, l := range fl[f.Req].Lookups {
			set[l] = true
		}
	}
	for _, o := range f.Opt {
		if o >= 0 && o < len(fl) && sw[fl[o].Tag] {
			for _, l := range fl[o].Lookups {
				set[l] = true
			}
		}
	}
	var res []int
	for l := range set {
		if l < nLookups {
			res = append(res, l)
		}
	}
	sort.Ints(res)
	return res
}

func sameInts(a []int, b []gtab.LookupIndex) bool {
	if len(a) != len(b) {
		return false
	}
	for i := range a {
		if a[i] != int(b[i]) {
			return false
		}
	}
	return true
}

// oracleFL: ascending, in range, no duplicates; equal to the selection rule
// applied to one of the language systems (or empty for a nil system); the
// same on every call.
func oracleFL(c flCase, info *gtab.Info, lang language.Tag, sw map[string]bool, res []gtab.LookupIndex, obs string, repeats int) (string, string) {
	if obs == "panic" {
		return "FindLookups panicked", "c15-findlookups-panic"
	}
	for i, l := range res {
		if int(l) >= c.NLookups {
			return fmt.Sprintf("lookup index %d out of range (%d lookups)", l, c.NLookups), "c15-findlookups-range"
		}
		if i > 0 && res[i-1] >= l {
			return fmt.Sprintf("result %v not strictly ascending", res), "c15-findlookups-order"
		}
	}
	// feature and lookup lists beyond 65535 entries cannot occur in a font
	// file (16-bit counts); the selection clause is not evaluated there
	ok := (len(c.SL) == 0 && len(res) == 0) || len(c.FL) > 65535 || c.NLookups > 65535
	for _, e := range c.SL {
		if e.F.Nil {
			if len(res) == 0 {
				ok = true
			}
			continue
		}
		if sameInts(wantedLookups(e.F, c.FL, c.NLookups, sw), res) {
			ok = true
		}
	}
	if !ok {
		return fmt.Sprintf("result %v is not the selection (required + switched-on optional features) of any language system", res), "c15-findlookups-selection"
	}
	for i := 0; i < repeats; i++ {
		_, o2 := callFindLookups(info, lang, sw)
		if o2 != obs {
			return fmt.Sprintf("call %d returned %s, first call returned %s", i+2, o2, obs), "c15-findlookups-nondeterministic"
		}
	}
	return "", ""
}

func (c flCase) run(repeats int) (impl, fail, sig string) {
	lang, err := parseTag(c.Lang)
	if err != nil {
		return "harness-error", err.Error(), "c15-harness"
	}
	sl, err := goScriptList(c.SL)
	if err != nil {
		return "harness-error", err.Error(), "c15-harness"
	}
	info := &gtab.Info{ScriptList: sl, FeatureList: goFeatureList(c.FL), LookupList: make(gtab.LookupList, c.NLookups)}
	// the tables as a caller can hold them: slices with spare capacity whose
	// neighbours in memory are the other language systems' / features' slices
	changed := shareOptional(info)
	sw := c.SW.goMap()
	res, obs := callFindLookups(info, lang, sw)
	fail, sig = oracleFL(c, info, lang, sw, res, obs, repeats)
	if fail == "" {
		// a read-only query: the tables are untouched, and asking for the other
		// language systems in between does not change the answer
		if d := changed(); d != "" {
			return obs, "FindLookups modified the tables: " + d, "c15-findlookups-modifies-input"
		}
		var tags []language.Tag
		for t := range info.ScriptList {
			tags = append(tags, t)
		}
		sort.Slice(tags, func(i, j int) bool { return tags[i].String() < tags[j].String() })
		for _, t := range tags {
			callFindLookups(info, t, sw)
			callFindLookups(info, t, nil)
		}
		if d := changed(); d != "" {
			return obs, "FindLookups (for another language of the same tables) modified the tables: " + d, "c15-findlookups-modifies-input"
		}
		if _, o2 := callFindLookups(info, lang, sw); o2 != obs {
			return obs, fmt.Sprintf("after queries for the other language systems the call returned %s, first call returned %s", o2, obs), "c15-findlookups-nondeterministic"
		}
	}
	return obs, fail, sig
}

// ================================================================ kern.Read

type kpair struct{ l, r int }

// refKern reads a kern table following the OpenType specification (version 0
// header; subtables version, length, coverage = format<<8 | flags; format 0:
// nPairs, searchRange, entrySelector, rangeShift, then nPairs records).  It
// reports whether the table is well-formed (every subtable inside the data,
// format-0 lengths equal to 14+6*nPairs) and, for well-formed tables, the
// value of every pair computed pair by pair: horizontal subtables without
// cross-stream and reserved bits, in file order, minimum subtables limit the
// value from below, override subtables replace it, the others accumulate.
// overflow lists pairs whose accumulated value leaves the int16 range.
func refKern(b []byte) (wellFormed bool, values map[kpair]int, overflow map[kpair]bool) {
	u16 := func(p int) int { return int(b[p])<<8 | int(b[p+1]) }
	if len(b) < 4 || u16(0) != 0 {
		return false, nil, nil
	}
	n := u16(2)
	type sub struct {
		flags int
		recs  [][3]int
	}
	var subs []sub
	pos := 4
	for i := 0; i < n; i++ {
		if pos+6 > len(b) {
			return false, nil, nil
		}
		ver, length, format, flags := u16(pos), u16(pos+2), int(b[pos+4]), int(b[pos+5])
		if length < 14 || pos+length > len(b) {
			return false, nil, nil
		}
		if ver == 0 && format == 0 {
			np := u16(pos + 6)
			if length != 14+6*np {
				return false, nil, nil
			}
			s := sub{flags: flags}
			for j := 0; j < np; j++ {
				q := pos + 14 + 6*j
				v := u16(q + 4)
				if v >= 32768 {
					v -= 65536
				}
				s.recs = append(s.recs, [3]int{u16(q), u16(q + 2), v})
			}
			subs = append(subs, s)
		}
		pos += length
	}
	values = map[kpair]int{}
	overflow = map[kpair]bool{}
	keys := map[kpair]bool{}
	for _, s := range subs {
		for _, r := range s.recs {
			keys[kpair{r[0], r[1]}] = true
		}
	}
	for k := range keys {
		val, have := 0, false
		for _, s := range subs {
			horizontal := s.flags&1 != 0
			crossStream := s.flags&4 != 0
			reserved := s.flags&0xF0 != 0
			if !horizontal || crossStream || reserved {
				continue
			}
			for _, r := range s.recs {
				if r[0] != k.l || r[1] != k.r {
					continue
				}
				switch {
				case s.flags&2 != 0: // minimum
					if val < r[2] {
						val, have = r[2], true
					}
				case s.flags&8 != 0: // override
					val, have = r[2], true
				default:
					val, have = val+r[2], true
					if val < -32768 || val > 32767 {
						overflow[k] = true
					}
				}
			}
		}
		if have {
			values[k] = val
		}
	}
	return true, values, overflow
}

func oracleKern(b []byte, info map[glyph.Pair]funit.Int16, obs string, elapsed time.Duration) (string, string) {
	if obs == "panic" {
		return "kern.Read panicked", "c15-kern-panic"
	}
	if elapsed > time.Second {
		// inputs are at most a few hundred KB; linear work takes milliseconds
		return fmt.Sprintf("kern.Read took %v on %d bytes", elapsed, len(b)), "time:kern.Read:overlapping-subtables"
	}
	wf, values, overflow := refKern(b)
	if !wf {
		return "", ""
	}
	if obs == "err" {
		return "kern.Read rejects a well-formed table", "c15-kern-reject"
	}
	for k, v := range values {
		if overflow[k] {
			continue
		}
		got, ok := info[glyph.Pair{Left: glyph.ID(k.l), Right: glyph.ID(k.r)}]
		if !ok || int(got) != v {
			return fmt.Sprintf("pair (%d,%d): table says %d, kern.Read has %d (present=%v)", k.l, k.r, v, got, ok), "c15-kern-value"
		}
	}
	for p := range info {
		if _, ok := values[kpair{int(p.Left), int(p.Right)}]; !ok {
			return fmt.Sprintf("pair (%d,%d) reported but not in any selected subtable", p.Left, p.Right), "c15-kern-extra"
		}
	}
	return "", ""
}

func runKern(b []byte) (impl, fail, sig string) {
	t0 := time.Now()
	info, obs := callKernRead(b)
	fail, sig = oracleKern(b, info, obs, time.Since(t0))
	return obs, fail, sig
}

// ================================================================ standardLigatures

var stdLigs = []struct {
	lig   rune
	comps []rune
}{
	{0xFB03, []rune{'f', 'f', 'i'}},
	{0xFB04, []rune{'f', 'f', 'l'}},
	{0xFB00, []rune{'f', 'f'}},
	{0xFB01, []rune{'f', 'i'}},
	{0xFB02, []rune{'f', 'l'}},
}

// availableLigs: the ligatures the font contains (ligature glyph and all
// component glyphs mapped), as glyph patterns.
func availableLigs(look func(rune) int) []ligT {
	var res []ligT
	for _, l := range stdLigs {
		out := look(l.lig)
		if out == 0 {
			continue
		}
		var in []int
		ok := true
		for _, c := range l.comps {
			g := look(c)
			if g == 0 {
				ok = false
			}
			in = append(in, g)
		}
		if ok {
			res = append(res, ligT{In: in, Out: out})
		}
	}
	return res
}

func eqInts(a, b []int) bool {
	if len(a) != len(b) {
		return false
	}
	for i := range a {
		if a[i] != b[i] {
			return false
		}
	}
	return true
}

func stdLigObs(info *gtab.Info) (string, []ligSetT, string) {
	if info == nil {
		return "nil", nil, ""
	}
	if len(info.LookupList) != 1 || len(info.LookupList[0].Subtables) != 1 {
		return "unexpected-shape", nil, "lookup list shape"
	}
	st, ok := info.LookupList[0].Subtables[0].(*gtab.Gsub4_1)
	if !ok {
		return "unexpected-shape", nil, "subtable type"
	}
	firsts := make([]int, 0, len(st.Cov))
	for g := range st.Cov {
		firsts = append(firsts, int(g))
	}
	sort.Ints(firsts)
	var sets []ligSetT
	for i, g := range firsts {
		idx := st.Cov[glyph.ID(g)]
		if idx != i || idx >= len(st.Repl) {
			return "unexpected-shape", nil, "coverage indices are not the ranks of the glyphs"
		}
		s := ligSetT{First: g}
		for _, lg := range st.Repl[idx] {
			in := make([]int, len(lg.In))
			for j, x := range lg.In {
				in[j] = int(x)
			}
			s.Ligs = append(s.Ligs, ligT{In: in, Out: int(lg.Out)})
		}
		sets = append(sets, s)
	}
	return vlib.Str(setsSx("sets", sets)), sets, ""
}

func runStdLig(cm map[rune]int) (impl, fail, sig string) {
	var info *gtab.Info
	panicked := false
	func() {
		defer func() {
			if e := recover(); e != nil {
				panicked = true
			}
		}()
		info = sfnt.VerifC15StandardLigatures(goCmap(cm))
	}()
	if panicked {
		return "panic", "standardLigatures panicked", "c15-stdlig-panic"
	}
	obs, sets, shapeErr := stdLigObs(info)
	if shapeErr != "" {
		return obs, "synthetic ligature table: " + shapeErr, "c15-stdlig-shape"
	}
	// the property, directly: exactly the ligatures the font contains, a
	// longer one never after one that is its prefix, feature liga optional
	avail := availableLigs(func(r rune) int { return cm[r] })
	if info == nil {
		if len(avail) != 0 {
			return obs, fmt.Sprintf("font contains %d standard ligatures but no table was made", len(avail)), "c15-stdlig-missing"
		}
		return obs, "", ""
	}
	type rule struct {
		first int
		lg    ligT
	}
	var rules []rule
	for _, s := range sets {
		for i, lg := range s.Ligs {
			rules = append(rules, rule{s.First, lg})
			for _, earlier := range s.Ligs[:i] {
				if len(earlier.In) < len(lg.In) && eqInts(earlier.In, lg.In[:len(earlier.In)]) {
					return obs, "a shorter ligature shadows a longer one", "c15-stdlig-order"
				}
			}
		}
	}
	for _, a := range avail {
		found := false
		for _, r := range rules {
			if r.first == a.In[0] && eqInts(r.lg.In, a.In[1:]) && r.lg.Out == a.Out {
				found = true
			}
		}
		if !found {
			return obs, fmt.Sprintf("ligature %v -> %d missing", a.In, a.Out), "c15-stdlig-missing"
		}
	}
	for _, r := range rules {
		found := false
		for _, a := range avail {
			if r.first == a.In[0] && eqInts(r.lg.In, a.In[1:]) && r.lg.Out == a.Out {
				found = true
			}
		}
		if !found {
			return obs, fmt.Sprintf("rule %d %v -> %d is not a standard ligature of the font", r.first, r.lg.In, r.lg.Out), "c15-stdlig-extra"
		}
	}
	if len(info.ScriptList) != 1 || len(info.FeatureList) != 1 || info.FeatureList[0].Tag != "liga" ||
		len(info.FeatureList[0].Lookups) != 1 || info.FeatureList[0].Lookups[0] != 0 {
		return obs, "feature structure is not one script with feature liga -> lookup 0", "c15-stdlig-shape"
	}
	for _, fs := range info.ScriptList {
		if fs == nil || int(fs.Required) < len(info.FeatureList) || len(fs.Optional) != 1 || fs.Optional[0] != 0 {
			return obs, "liga is not an optional feature of the synthetic table (the caller cannot switch it off)", "c15-stdlig-required"
		}
	}
	return obs, "", ""
}

// ================================================================ Layout on in-memory fonts

type layCase struct {
	Rev1, Rev2 bool
	Lang       string
	Font       fontT
	GSW, PSW   swT
	Runes      []rune
}

// oracleOnly: the font uses lookups outside the model's fragment.
func (c layCase) oracleOnly() bool {
	for _, g := range []gtabT{c.Font.Gsub, c.Font.Gpos} {
		for _, lk := range g.LL {
			if lk.Kind == "sub1" || lk.Kind == "pos1" {
				return true
			}
		}
	}
	return false
}

func (c layCase) line() (string, error) {
	lang, err := parseTag(c.Lang)
	if err != nil {
		return "", err
	}
	mt, err := matcherTable(lang, c.Font.Gsub, c.Font.Gpos)
	if err != nil {
		return "", err
	}
	head := "lay"
	if c.oracleOnly() {
		head = "!lay"
	}
	return vlib.Line(vlib.Atom(head), mt, vlib.Bool(c.Rev1), vlib.Bool(c.Rev2), vlib.Atom(c.Lang),
		cmapSx(c.Font.Cmap), outlSx(c.Font.Outl, c.Font.Widths), gdefSx(c.Font.Gdef),
		c.Font.Gsub.sx(), c.Font.Gpos.sx(), c.GSW.sx(), c.PSW.sx(), runesSx(c.Runes)), nil
}

func parseLay(items []vlib.Sx) (layCase, error) {
	var c layCase
	if len(items) != 13 {
		return c, errors.New("lay case: want 13 items")
	}
	var err error
	if c.Rev1, err = vlib.AsBool(items[2]); err != nil {
		return c, err
	}
	if c.Rev2, err = vlib.AsBool(items[3]); err != nil {
		return c, err
	}
	if c.Lang, err = vlib.AsAtom(items[4]); err != nil {
		return c, err
	}
	if c.Font.Cmap, err = asCmap(items[5]); err != nil {
		return c, err
	}
	if c.Font.Outl, c.Font.Widths, err = asOutl(items[6]); err != nil {
		return c, err
	}
	if c.Font.Gdef, err = asGdef(items[7]); err != nil {
		return c, err
	}
	if c.Font.Gsub, err = asGtab(items[8]); err != nil {
		return c, err
	}
	if c.Font.Gpos, err = asGtab(items[9]); err != nil {
		return c, err
	}
	if c.GSW, err = asSW(items[10]); err != nil {
		return c, err
	}
	if c.PSW, err = asSW(items[11]); err != nil {
		return c, err
	}
	if c.Runes, err = asRunes(items[12]); err != nil {
		return c, err
	}
	return c, nil
}

// numGlyphs: Font.NumGlyphs() of the font goOutlines builds.
func (f fontT) numGlyphs() int {
	if f.Outl == "glyf-nil" {
		return 1
	}
	return len(f.Widths)
}

// baseAdvance: 0 for a glyph the font does not have (it gets no width,
// fixes/C07-layout-gid-beyond-font.diff), 0 for GDEF marks, the width otherwise.
func (f fontT) baseAdvance(gid int) int {
	if gid >= f.numGlyphs() {
		return 0
	}
	if f.Gdef != nil && f.Gdef[gid] == 3 {
		return 0
	}
	if f.Outl == "glyf-nil" {
		return 0
	}
	return f.Widths[gid]
}

// noRuleApplies: no lookup of the font can match anywhere in the glyph
// sequence (judged from the tables alone, whatever features are selected).
func (f fontT) noRuleApplies(gids []int) bool {
	in := map[int]bool{}
	for _, g := range gids {
		in[g] = true
	}
	for _, g := range []gtabT{f.Gsub, f.Gpos} {
		for _, lk := range g.LL {
			switch lk.Kind {
			case "pair":
				for _, p := range lk.Pairs {
					for i := 0; i+1 < len(gids); i++ {
						if gids[i] == p.L && gids[i+1] == p.R {
							return false
						}
					}
				}
			case "liga":
				for _, s := range lk.Sets {
					if in[s.First] {
						return false
					}
				}
			case "sub1", "pos1":
				for _, g := range lk.Cov {
					if in[g] {
						return false
					}
				}
			}
		}
	}
	return true
}

type expGlyph struct {
	gid  int
	text []rune
	adv  int
}

func checkSeq(out []glyph.Info, exp []expGlyph) string {
	if len(out) != len(exp) {
		return fmt.Sprintf("%d glyphs, expected %d", len(out), len(exp))
	}
	for i, g := range out {
		e := exp[i]
		if int(g.GID) != e.gid || string(g.Text) != string(e.text) || g.XOffset != 0 || g.YOffset != 0 || int(g.Advance) != e.adv {
			return fmt.Sprintf("glyph %d is {gid %d text %v offs (%d,%d) adv %d}, expected {gid %d text %v offs (0,0) adv %d}",
				i, g.GID, g.Text, g.XOffset, g.YOffset, g.Advance, e.gid, e.text, e.adv)
		}
	}
	return ""
}

func copyMap(m map[string]bool) map[string]bool {
	res := make(map[string]bool, len(m))
	for k, v := range m {
		res[k] = v
	}
	return res
}

func textOf(out []glyph.Info) []rune {
	var t []rune
	for _, g := range out {
		t = append(t, g.Text...)
	}
	return t
}

func (c layCase) run() (impl, fail, sig string, err error) {
	lang, err := parseTag(c.Lang)
	if err != nil {
		return "", "", "", err
	}
	f, err := c.Font.goFont()
	if err != nil {
		return "", "", "", err
	}
	s := string(c.Runes)
	seqs, obs := callLayout(f, lang, c.GSW.goMap(), c.PSW.goMap(), s)
	if obs == "err" {
		return obs, "NewLayouter failed", "c15-layouter-error", nil
	}

	gids := make([]int, len(c.Runes))
	for i, r := range c.Runes {
		gids[i] = c.Font.Cmap[r]
	}
	if obs == "panic" {
		// every font built here has one width per glyph: nothing may panic,
		// whatever the cmap and the substitutions produce
		return obs, "Layout panicked", "c15-layout-panic", nil
	}
	out := seqs[0]
	if string(textOf(out)) != s {
		return obs, "the text of the glyphs is not the input string", "c15-layout-text", nil
	}
	if c.Font.noRuleApplies(gids) {
		// the property, directly: one glyph per character carrying that
		// character and the font's advance (0 for GDEF marks)
		exp := make([]expGlyph, len(gids))
		for i, g := range gids {
			exp[i] = expGlyph{g, []rune{c.Runes[i]}, c.Font.baseAdvance(g)}
		}
		if d := checkSeq(out, exp); d != "" {
			return obs, "no rule applies, but " + d, "c15-layout-identity", nil
		}
	}
	// a nil switch map means the default feature set
	if c.GSW.Nil || c.PSW.Nil {
		gsw, psw := c.GSW.goMap(), c.PSW.goMap()
		if gsw == nil {
			gsw = copyMap(gtab.GsubDefaultFeatures)
		}
		if psw == nil {
			psw = copyMap(gtab.GposDefaultFeatures)
		}
		if _, obs3 := callLayout(f, lang, gsw, psw, s); obs3 != obs {
			return obs, "nil switch maps give " + obs + ", the default feature sets given explicitly " + obs3, "c15-layout-defaults", nil
		}
	}
	// a Layouter that has been used before gives the same result
	seqs2, obs2 := callLayout(f, lang, c.GSW.goMap(), c.PSW.goMap(), s+s, "", s)
	if obs2 != obs || (seqs2 != nil && seqSx(seqs2[2]) != obs) {
		return obs, "a reused Layouter returns " + obs2 + ", a fresh one " + obs, "c15-layout-reuse", nil
	}
	return obs, "", "", nil
}

// ================================================================ sfnt.Read + Layout (font files with a kern table)

type rlayCase struct {
	Rev1, Rev2 bool
	Lang       string
	Cmap       map[rune]int
	Outl       string // "glyf" or "cff"
	Widths     []int
	Gdef       map[int]int
	Kern       []byte // nil = no kern table
	GSW, PSW   swT
	Runes      []rune
}

var (
	cffBaseOnce sync.Once
	cffBase     *sfnt.Font
)

// buildFile writes the font (glyf: our own glyphs; cff: the glyphs of
// internal/debug.MakeSimpleFont with our widths) and adds the kern table.
func (c rlayCase) buildFile() ([]byte, error) {
	var f *sfnt.Font
	switch c.Outl {
	case "glyf":
		f = &sfnt.Font{FamilyName: "C15", UnitsPerEm: 1000, Outlines: goOutlines("glyf", c.Widths)}
	case "cff":
		cffBaseOnce.Do(func() { cffBase = debug.MakeSimpleFont() })
		cp := *cffBase
		o := *(cffBase.Outlines.(*cff.Outlines))
		if len(c.Widths) != len(o.Glyphs) {
			return nil, fmt.Errorf("cff base font has %d glyphs, case has %d widths", len(o.Glyphs), len(c.Widths))
		}
		gg := make([]*cff.Glyph, len(o.Glyphs))
		for i, g := range o.Glyphs {
			g2 := *g
			g2.Width = float64(c.Widths[i])
			gg[i] = &g2
		}
		o.Glyphs = gg
		o.Encoding = nil
		cp.Outlines = &o
		f = &cp
	default:
		return nil, errors.New("bad outline kind")
	}
	f.InstallCMap(goCmap(c.Cmap))
	// "maps each character through the BEST cmap subtable": decoy subtables that
	// must not change the layout - a higher-priority record in a format the
	// library stores but cannot interpret (the best DECODABLE subtable is then
	// the installed one), and a lower-priority Macintosh subtable that maps
	// the same codes to other glyphs.  Chosen from the description alone.
	switch len(c.Cmap) % 4 {
	case 1:
		if _, full := f.CMapTable[cmap.Key{PlatformID: 3, EncodingID: 10}]; !full {
			f.CMapTable[cmap.Key{PlatformID: 3, EncodingID: 10}] = []byte{0, 13, 0, 0, 0, 0, 0, 16, 0, 0, 0, 0, 0, 0, 0, 0}
		}
	case 2:
		if _, full := f.CMapTable[cmap.Key{PlatformID: 0, EncodingID: 4}]; !full {
			f.CMapTable[cmap.Key{PlatformID: 0, EncodingID: 4}] = []byte{0, 10, 0, 0, 0, 0, 0, 20, 0, 0, 0, 0, 0, 0, 0, 0, 0, 0, 0, 0}
		}
		fallthrough
	case 3:
		mac := make([]byte, 262)
		mac[1], mac[2], mac[3] = 0, 1, 6
		for i := 0; i < 256; i++ {
			mac[6+i] = 1
		}
		f.CMapTable[cmap.Key{PlatformID: 1, EncodingID: 0}] = mac
	}
	f.Gdef = goGdef(c.Gdef)
	buf := &bytes.Buffer{}
	if _, err := f.Write(buf); err != nil {
		return nil, err
	}
	if c.Kern == nil {
		return buf.Bytes(), nil
	}
	return addTable(buf.Bytes(), "kern", c.Kern)
}

// CffBaseGlyphs returns the number of glyphs of the CFF base font.
func cffBaseGlyphs() int {
	cffBaseOnce.Do(func() { cffBase = debug.MakeSimpleFont() })
	return len(cffBase.Outlines.(*cff.Outlines).Glyphs)
}

func (c rlayCase) line(fixed bool) string {
	var kb vlib.Sx = vlib.Atom("nil")
	if c.Kern != nil {
		kb = vlib.Hex(c.Kern)
	}
	// both synthetic script lists have one entry: the matcher answers 0
	mt := vlib.L(
		vlib.L(vlib.L(vlib.Hex([]byte("und-Zzzz"))), vlib.Int(0)),
		vlib.L(vlib.L(vlib.Hex([]byte("und-Latn-x-latn"))), vlib.Int(0)))
	return vlib.Line(vlib.Atom("rlay"), mt, vlib.Bool(c.Rev1), vlib.Bool(c.Rev2), vlib.Atom(c.Lang),
		cmapSx(c.Cmap), outlSx(c.Outl, c.Widths), gdefSx(c.Gdef), vlib.Bool(fixed), kb,
		c.GSW.sx(), c.PSW.sx(), runesSx(c.Runes))
}

func parseRLay(items []vlib.Sx) (rlayCase, error) {
	var c rlayCase
	if len(items) != 13 {
		return c, errors.New("rlay case: want 13 items")
	}
	var err error
	if c.Rev1, err = vlib.AsBool(items[2]); err != nil {
		return c, err
	}
	if c.Rev2, err = vlib.AsBool(items[3]); err != nil {
		return c, err
	}
	if c.Lang, err = vlib.AsAtom(items[4]); err != nil {
		return c, err
	}
	if c.Cmap, err = asCmap(items[5]); err != nil {
		return c, err
	}
	if c.Outl, c.Widths, err = asOutl(items[6]); err != nil {
		return c, err
	}
	if c.Gdef, err = asGdef(items[7]); err != nil {
		return c, err
	}
	if !isNilAtom(items[9]) {
		if c.Kern, err = vlib.AsBytes(items[9]); err != nil {
			return c, err
		}
		if c.Kern == nil {
			c.Kern = []byte{}
		}
	}
	if c.GSW, err = asSW(items[10]); err != nil {
		return c, err
	}
	if c.PSW, err = asSW(items[11]); err != nil {
		return c, err
	}
	if c.Runes, err = asRunes(items[12]); err != nil {
		return c, err
	}
	return c, nil
}

// expected states the property for a font file without GSUB and GPOS directly:
// characters through the cmap; if the font is proportional and liga is on, the
// standard ligatures it contains, longest first, left to right; advances
// (0 for marks); every adjacent pair moved by the kern table's value.
// ok=false: outside the statement (ill-formed kern table, int16 overflow,
// glyph beyond the glyph set).
func (c rlayCase) expected(fixed bool) (exp []expGlyph, ok bool) {
	n := len(c.Widths)
	seq := make([]expGlyph, len(c.Runes))
	for i, r := range c.Runes {
		seq[i] = expGlyph{gid: c.Cmap[r], text: []rune{r}}
	}
	ligaOn := c.GSW.Nil || c.GSW.M["liga"]
	if !fixed && ligaOn {
		avail := availableLigs(func(r rune) int { return c.Cmap[r] })
		var out []expGlyph
		for i := 0; i < len(seq); {
			matched := false
			for _, lg := range avail {
				if i+len(lg.In) > len(seq) {
					continue
				}
				m := true
				for j, g := range lg.In {
					if seq[i+j].gid != g {
						m = false
					}
				}
				if m {
					var t []rune
					for j := range lg.In {
						t = append(t, seq[i+j].text...)
					}
					out = append(out, expGlyph{gid: lg.Out, text: t})
					i += len(lg.In)
					matched = true
					break
				}
			}
			if !matched {
				out = append(out, seq[i])
				i++
			}
		}
		seq = out
	}
	var values map[kpair]int
	var overflow map[kpair]bool
	if c.Kern != nil {
		var wf bool
		wf, values, overflow = refKern(c.Kern)
		if !wf {
			return nil, false
		}
	}
	for i := range seq {
		g := seq[i].gid
		isMark := c.Gdef != nil && c.Gdef[g] == 3
		if !isMark && g < n {
			// a glyph the font does not have gets no width
			seq[i].adv = c.Widths[g]
		}
	}
	for i := 0; i+1 < len(seq); i++ {
		k := kpair{seq[i].gid, seq[i+1].gid}
		if overflow[k] {
			return nil, false
		}
		seq[i].adv += values[k]
		if seq[i].adv < -32768 || seq[i].adv > 32767 {
			return nil, false
		}
	}
	return seq, true
}

// run returns the observation, the oracle's verdict and the fixed-pitch flag
// of the font as read.
func (c rlayCase) run() (impl, fail, sig string, fixed bool, err error) {
	lang, err := parseTag(c.Lang)
	if err != nil {
		return "", "", "", false, err
	}
	file, err := c.buildFile()
	if err != nil {
		return "", "", "", false, fmt.Errorf("building the font file: %v", err)
	}
	var g *sfnt.Font
	var rerr error
	panicked := false
	func() {
		defer func() {
			if e := recover(); e != nil {
				panicked = true
			}
		}()
		g, rerr = sfnt.Read(bytes.NewReader(file))
	}()
	if panicked {
		return "panic", "sfnt.Read panicked", "c15-read-panic", false, nil
	}
	wfKern := true
	if c.Kern != nil {
		wfKern, _, _ = refKern(c.Kern)
	}
	if rerr != nil {
		if wfKern {
			return "err", "sfnt.Read rejects the font: " + rerr.Error(), "c15-read-reject", false, nil
		}
		return "err", "", "", false, nil
	}
	// the font as read must be the font that was written (C01's business;
	// checked here because the expected layout is computed from the inputs)
	fixed = g.IsFixedPitch()
	best, cerr := g.CMapTable.GetBest()
	if cerr != nil {
		return "err", "no usable cmap after reading back: " + cerr.Error(), "c15-font-roundtrip", fixed, nil
	}
	check := []rune{'f', 'i', 'l', 0xFB00, 0xFB01, 0xFB02, 0xFB03, 0xFB04}
	check = append(check, c.Runes...)
	for r := range c.Cmap {
		check = append(check, r)
	}
	for _, r := range check {
		if int(best.Lookup(r)) != c.Cmap[r] {
			return "err", fmt.Sprintf("cmap changed by write/read: U+%04X -> %d, written %d", r, best.Lookup(r), c.Cmap[r]), "c15-font-roundtrip", fixed, nil
		}
	}
	for i, w := range c.Widths {
		if int(g.GlyphWidth(glyph.ID(i))) != w {
			return "err", fmt.Sprintf("width of glyph %d changed by write/read: %v, written %d", i, g.GlyphWidth(glyph.ID(i)), w), "c15-font-roundtrip", fixed, nil
		}
	}
	if _, isGlyf := g.Outlines.(*glyf.Outlines); isGlyf != (c.Outl == "glyf") {
		return "err", "outline kind changed by write/read", "c15-font-roundtrip", fixed, nil
	}
	for i := range c.Widths {
		want := c.Gdef != nil && c.Gdef[i] == 3
		if g.Gdef.IsMark(glyph.ID(i)) != want {
			return "err", fmt.Sprintf("mark class of glyph %d changed by write/read", i), "c15-font-roundtrip", fixed, nil
		}
	}
	if (g.Gpos != nil) != (c.Kern != nil) {
		return "err", "GPOS present iff kern table present: violated", "c15-kern-gpos", fixed, nil
	}

	s := string(c.Runes)
	seqs, obs := callLayout(g, lang, c.GSW.goMap(), c.PSW.goMap(), s)
	if obs == "err" {
		return obs, "NewLayouter failed", "c15-layouter-error", fixed, nil
	}
	exp, ok := c.expected(fixed)
	if obs == "panic" {
		return obs, "Layout panicked", "c15-layout-panic", fixed, nil
	}
	out := seqs[0]
	if string(textOf(out)) != s {
		return obs, "the text of the glyphs is not the input string", "c15-layout-text", fixed, nil
	}
	if ok {
		if d := checkSeq(out, exp); d != "" {
			return obs, "cmap + standard ligatures + widths + kern table say otherwise: " + d, "c15-kern-layout", fixed, nil
		}
	}
	// determinism across calls and Layouters
	_, obs2 := callLayout(g, lang, c.GSW.goMap(), c.PSW.goMap(), s+s, s)
	if obs2 != obs {
		return obs, "a reused Layouter returns " + obs2 + ", a fresh one " + obs, "c15-layout-reuse", fixed, nil
	}
	return obs, "", "", fixed, nil
}
