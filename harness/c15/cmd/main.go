package main

import (
	"seehuhn.de/go/sfnt/verifharness/c15"
	"seehuhn.de/go/sfnt/verifharness/vlib"
)

func main() { vlib.Main(c15.Gen, c15.RunCase) }
