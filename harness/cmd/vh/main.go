// Command vh is the harness entry point.
//
//	vh <ID> gen <outdir> <seed> <tier>     generate cases, run implementation + oracle
//	vh <ID> cases <file> <outdir>          run the given case lines (corpus, replays)
package main

import (
	"bufio"
	"fmt"
	"os"
	"strconv"
	"strings"

	"seehuhn.de/go/sfnt/verifharness/c17"
	"seehuhn.de/go/sfnt/verifharness/vlib"
)

type prop struct {
	gen     func(run *vlib.Run, seed uint64, tier string)
	runCase func(line string) (impl, fail, sig string, err error)
}

var props = map[string]prop{
	"C17": {c17.Gen, c17.RunCase},
}

func main() {
	if len(os.Args) < 4 {
		usage()
	}
	p, ok := props[os.Args[1]]
	if !ok {
		fmt.Fprintln(os.Stderr, "unknown property", os.Args[1])
		os.Exit(2)
	}
	switch os.Args[2] {
	case "gen":
		if len(os.Args) != 6 {
			usage()
		}
		seed, err := strconv.ParseUint(os.Args[4], 10, 64)
		check(err)
		run, err := vlib.NewRun(os.Args[3])
		check(err)
		p.gen(run, seed, os.Args[5])
		check(run.Close())
	case "cases":
		if len(os.Args) != 5 {
			usage()
		}
		f, err := os.Open(os.Args[3])
		check(err)
		defer f.Close()
		run, err := vlib.NewRun(os.Args[4])
		check(err)
		run.Rule = "replayed case lines"
		sc := bufio.NewScanner(f)
		sc.Buffer(make([]byte, 1<<20), 1<<30)
		for sc.Scan() {
			line := strings.TrimSpace(sc.Text())
			if line == "" || line[0] == '#' {
				continue
			}
			impl, fail, sig, err := p.runCase(line)
			if err != nil {
				fmt.Fprintln(os.Stderr, "bad case line:", err)
				os.Exit(2)
			}
			idx := run.Add(line, impl, true, "replayed")
			if fail != "" {
				run.Fail(idx, line, fail, sig)
			}
		}
		check(sc.Err())
		check(run.Close())
	default:
		usage()
	}
}

func usage() {
	fmt.Fprintln(os.Stderr, "usage: vh <ID> gen <outdir> <seed> <tier> | vh <ID> cases <file> <outdir>")
	os.Exit(2)
}

func check(err error) {
	if err != nil {
		fmt.Fprintln(os.Stderr, err)
		os.Exit(2)
	}
}
