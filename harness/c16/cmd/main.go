package main

import (
	"seehuhn.de/go/sfnt/verifharness/c16"
	"seehuhn.de/go/sfnt/verifharness/vlib"
)

func main() { vlib.Main(c16.Gen, c16.RunCase) }
