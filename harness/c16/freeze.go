package c16

// freeze.go: WRITE DETECTION that does not depend on scheduling.
//
// A write to the shared font that is undone before the call returns (reverse a
// slice in place, use it, reverse it back) leaves the deep hash before/after
// unchanged, and the race detector sees it only when another goroutine touches
// the same words in the same run.  Here the memory itself says so: the
// environment is rebuilt with every object reachable from the font (the
// sfnt.Font struct, the structs behind every pointer, the backing arrays of
// every slice INCLUDING their spare capacity, the boxed values behind
// interfaces; memory shared by several slices stays shared, see "region")
// moved into one anonymous mapping which is then made read-only
// (syscall.Mmap + syscall.Mprotect PROT_READ).  Every read-only operation is
// then run once, alone, with debug.SetPanicOnFault(true): a store into any of
// that memory is a SIGSEGV which the runtime turns into a panic carrying the
// fault address; the harness recovers it, maps the address back to the object
// ("Font.Gsub.LookupList[3].Subtables[0].(*gtab.ChainedSeqContext1).Rules[0][1].Backtrack")
// and takes the stack of the faulting store.  The verdict does not depend on
// timing, on the values written, or on a second goroutine.
//
// What cannot be moved stays writable and is covered by the other stages only:
// the buckets of Go maps (the values stored IN maps are moved), captured
// variables of function values, package-level variables, strings (immutable
// anyway).  The Go objects the moved copies came from are kept alive (the
// collector does not scan the mapping); nothing in the mapping is ever freed.

import (
	"fmt"
	"reflect"
	"runtime"
	"runtime/debug"
	"sort"
	"strings"
	"syscall"
	"unsafe"
)

const arenaSize = 256 << 20 // address space only; pages are committed when touched

type arenaAlloc struct {
	lo, hi uintptr
	path   string
}

type movedKey struct {
	p unsafe.Pointer
	t reflect.Type
	n int // slices: the capacity; -1 for the target of a pointer
}

// A region is a maximal run of original memory covered by overlapping
// objects (the sub-slices of one array, a pointer into an array): it is moved
// as one piece, so that memory that was shared between slices before is shared
// between them afterwards (and spare capacity is what it was).
type region struct {
	lo, hi uintptr
	path   string
	keep   unsafe.Pointer
	np     unsafe.Pointer // nil until moved
}

type arena struct {
	mem     []byte
	base    uintptr
	off     uintptr
	keep    []unsafe.Pointer // the original Go objects (and boxes made while moving)
	moved   map[movedKey]unsafe.Pointer
	seen    map[movedKey]bool // pass 1
	mapPtrs map[unsafe.Pointer]bool
	regions []region
	allocs  []arenaAlloc
	frozen  bool

	Objects, Slices, Boxes, MapValues int
}

func newArena() (*arena, error) {
	mem, err := syscall.Mmap(-1, 0, arenaSize, syscall.PROT_READ|syscall.PROT_WRITE, syscall.MAP_ANON|syscall.MAP_PRIVATE)
	if err != nil {
		return nil, fmt.Errorf("mmap: %v", err)
	}
	return &arena{mem: mem, base: uintptr(unsafe.Pointer(&mem[0])), moved: map[movedKey]unsafe.Pointer{}, seen: map[movedKey]bool{}}, nil
}

func (a *arena) alloc(size, align uintptr, path string) unsafe.Pointer {
	if align < 8 {
		align = 8
	}
	a.off = (a.off + align - 1) &^ (align - 1)
	if a.off+size > uintptr(len(a.mem)) {
		panic("freeze: arena exhausted")
	}
	p := unsafe.Pointer(&a.mem[a.off])
	a.allocs = append(a.allocs, arenaAlloc{a.base + a.off, a.base + a.off + size, path})
	a.off += size
	// a gap of one word between objects: a store just behind an object hits no
	// other object's path
	a.off += 8
	return p
}

// note records that the original memory [p, p+size) will be moved (pass 1).
func (a *arena) note(p unsafe.Pointer, size uintptr, path string) {
	a.regions = append(a.regions, region{lo: uintptr(p), hi: uintptr(p) + size, path: path, keep: p})
}

// mergeRegions turns the noted intervals into disjoint maximal regions.
func (a *arena) mergeRegions() {
	sort.Slice(a.regions, func(i, j int) bool {
		if a.regions[i].lo != a.regions[j].lo {
			return a.regions[i].lo < a.regions[j].lo
		}
		return a.regions[i].hi > a.regions[j].hi
	})
	var out []region
	for _, r := range a.regions {
		if n := len(out); n > 0 && r.lo < out[n-1].hi {
			if r.hi > out[n-1].hi {
				out[n-1].hi = r.hi
			}
			continue
		}
		out = append(out, r)
	}
	a.regions = out
}

// translate returns the address in the arena of the original address p (the
// start of an object of the given size), moving the region it lies in when
// that has not happened yet.
func (a *arena) translate(p unsafe.Pointer, size uintptr) unsafe.Pointer {
	addr := uintptr(p)
	i := sort.Search(len(a.regions), func(i int) bool { return a.regions[i].hi > addr })
	if i >= len(a.regions) || a.regions[i].lo > addr || a.regions[i].hi < addr+size {
		panic(fmt.Sprintf("freeze: object at %#x (+%d) was not seen in the first pass", addr, size))
	}
	r := &a.regions[i]
	if r.np == nil {
		n := r.hi - r.lo
		r.np = a.alloc(n, 16, r.path)
		copy(unsafe.Slice((*byte)(r.np), n), unsafe.Slice((*byte)(r.keep), n))
		a.keep = append(a.keep, r.keep)
	}
	return unsafe.Add(r.np, addr-r.lo)
}

func (a *arena) protect(prot int) error {
	n := (a.off + 4095) &^ 4095
	if n == 0 {
		return nil
	}
	return syscall.Mprotect(a.mem[:n], prot)
}

func (a *arena) contains(addr uintptr) bool {
	return addr >= a.base && addr < a.base+uintptr(len(a.mem))
}

// where names the moved object an address lies in.
func (a *arena) where(addr uintptr) string {
	i := sort.Search(len(a.allocs), func(i int) bool { return a.allocs[i].hi > addr })
	if i < len(a.allocs) && a.allocs[i].lo <= addr {
		return fmt.Sprintf("%s +%d", a.allocs[i].path, addr-a.allocs[i].lo)
	}
	return "(between objects)"
}

type sliceHeader struct {
	Data unsafe.Pointer
	Len  int
	Cap  int
}

func hasPointers(t reflect.Type) bool {
	switch t.Kind() {
	case reflect.Ptr, reflect.Slice, reflect.Map, reflect.Interface, reflect.String, reflect.Func, reflect.Chan, reflect.UnsafePointer:
		return true
	case reflect.Struct:
		for i := 0; i < t.NumField(); i++ {
			if hasPointers(t.Field(i).Type) {
				return true
			}
		}
		return false
	case reflect.Array:
		return t.Len() > 0 && hasPointers(t.Elem())
	}
	return false
}

// movable: does a value of this type contain anything the walk would move?
func movable(t reflect.Type) bool {
	switch t.Kind() {
	case reflect.Ptr, reflect.Slice, reflect.Map, reflect.Interface:
		return true
	case reflect.Struct:
		if t == timeType {
			return false
		}
		for i := 0; i < t.NumField(); i++ {
			if movable(t.Field(i).Type) {
				return true
			}
		}
		return false
	case reflect.Array:
		return t.Len() > 0 && movable(t.Elem())
	}
	return false
}

func skipPointee(t reflect.Type) bool {
	return t.Size() == 0 || strings.HasPrefix(t.String(), "time.") || strings.HasPrefix(t.String(), "sync.")
}

// collect is pass 1: it notes every object move will relocate, without
// changing anything.
func (a *arena) collect(v reflect.Value, path string) {
	if !v.IsValid() {
		return
	}
	v = rw(v)
	switch v.Kind() {
	case reflect.Ptr:
		if v.IsNil() {
			return
		}
		t := v.Type().Elem()
		if skipPointee(t) {
			return
		}
		a.note(v.UnsafePointer(), t.Size(), path)
		k := movedKey{v.UnsafePointer(), t, -1}
		if a.seen[k] {
			return
		}
		a.seen[k] = true
		if movable(t) {
			a.collect(v.Elem(), path)
		}
	case reflect.Slice:
		if v.IsNil() || v.Cap() == 0 {
			return
		}
		et := v.Type().Elem()
		if et.Size() == 0 {
			return
		}
		a.note(v.UnsafePointer(), uintptr(v.Cap())*et.Size(), path)
		k := movedKey{v.UnsafePointer(), et, v.Cap()}
		if a.seen[k] {
			return
		}
		a.seen[k] = true
		if movable(et) {
			for i := 0; i < v.Cap(); i++ {
				a.collect(reflect.NewAt(et, unsafe.Add(v.UnsafePointer(), uintptr(i)*et.Size())).Elem(), fmt.Sprintf("%s[%d]", path, i))
			}
		}
	case reflect.Interface:
		if v.IsNil() {
			return
		}
		el := v.Elem()
		if movable(el.Type()) {
			a.collect(addressableAny(el), fmt.Sprintf("%s.(%s)", path, el.Type()))
		}
	case reflect.Struct:
		t := v.Type()
		if t == timeType {
			return
		}
		v = addressable(v)
		for i := 0; i < v.NumField(); i++ {
			if movable(t.Field(i).Type) {
				a.collect(v.Field(i), path+"."+t.Field(i).Name)
			}
		}
	case reflect.Array:
		if !movable(v.Type().Elem()) {
			return
		}
		v = addressable(v)
		for i := 0; i < v.Len(); i++ {
			a.collect(v.Index(i), fmt.Sprintf("%s[%d]", path, i))
		}
	case reflect.Map:
		if v.IsNil() {
			return
		}
		if a.mapPtrs != nil {
			a.mapPtrs[v.UnsafePointer()] = true
		}
		if !movable(v.Type().Elem()) {
			return
		}
		it := v.MapRange()
		for it.Next() {
			a.collect(addressableAny(it.Value()), fmt.Sprintf("%s[%v]", path, it.Key()))
		}
	}
}

// addressableAny copies a value that is not addressable (the content of an
// interface, a map value) into fresh storage.
func addressableAny(v reflect.Value) reflect.Value {
	if v.CanAddr() {
		return v
	}
	c := reflect.New(v.Type()).Elem()
	c.Set(v)
	return c
}

// move relocates everything reachable from the addressable value v (which lies
// in ordinary memory for the roots and in the still writable arena below).
func (a *arena) move(v reflect.Value, path string) {
	v = rw(v)
	switch v.Kind() {
	case reflect.Ptr:
		if v.IsNil() {
			return
		}
		t := v.Type().Elem()
		if skipPointee(t) {
			return
		}
		old := v.UnsafePointer()
		if a.contains(uintptr(old)) {
			return
		}
		k := movedKey{old, t, -1}
		if np, ok := a.moved[k]; ok {
			*(*unsafe.Pointer)(unsafe.Pointer(v.UnsafeAddr())) = np
			return
		}
		np := a.translate(old, t.Size())
		a.moved[k] = np
		a.Objects++
		*(*unsafe.Pointer)(unsafe.Pointer(v.UnsafeAddr())) = np
		if movable(t) {
			a.move(reflect.NewAt(t, np).Elem(), path)
		}
	case reflect.Slice:
		if v.IsNil() || v.Cap() == 0 {
			return
		}
		et := v.Type().Elem()
		if et.Size() == 0 {
			return
		}
		h := (*sliceHeader)(unsafe.Pointer(v.UnsafeAddr()))
		if a.contains(uintptr(h.Data)) {
			return
		}
		size := uintptr(h.Cap) * et.Size()
		k := movedKey{h.Data, et, h.Cap}
		np, ok := a.moved[k]
		if !ok {
			np = a.translate(h.Data, size)
			a.moved[k] = np
			a.Slices++
		}
		h.Data = np
		if ok || !movable(et) {
			return
		}
		for i := 0; i < h.Cap; i++ {
			a.move(reflect.NewAt(et, unsafe.Add(np, uintptr(i)*et.Size())).Elem(), fmt.Sprintf("%s[%d]", path, i))
		}
	case reflect.Interface:
		if v.IsNil() {
			return
		}
		el := v.Elem()
		if !movable(el.Type()) {
			return
		}
		p := fmt.Sprintf("%s.(%s)", path, el.Type())
		switch el.Kind() {
		case reflect.Ptr:
			// re-point the interface at the moved object
			tmp := reflect.New(el.Type()).Elem()
			tmp.Set(el)
			a.move(tmp, p)
			v.Set(tmp)
		case reflect.Map:
			a.moveMapValues(el, p)
		default:
			// a boxed struct / slice: box a copy whose insides are moved
			tmp := reflect.New(el.Type()).Elem()
			tmp.Set(el)
			a.move(tmp, p)
			v.Set(tmp)
			a.Boxes++
			// the new box is referenced from the arena only
			a.keep = append(a.keep, (*[2]unsafe.Pointer)(unsafe.Pointer(v.UnsafeAddr()))[1])
		}
	case reflect.Struct:
		t := v.Type()
		if t == timeType {
			return
		}
		for i := 0; i < v.NumField(); i++ {
			if movable(t.Field(i).Type) {
				a.move(v.Field(i), path+"."+t.Field(i).Name)
			}
		}
	case reflect.Array:
		if !movable(v.Type().Elem()) {
			return
		}
		for i := 0; i < v.Len(); i++ {
			a.move(v.Index(i), fmt.Sprintf("%s[%d]", path, i))
		}
	case reflect.Map:
		a.moveMapValues(v, path)
	}
}

// moveMapValues: the buckets of a map stay where they are, the objects the
// values refer to are moved.
func (a *arena) moveMapValues(m reflect.Value, path string) {
	if m.IsNil() || !movable(m.Type().Elem()) {
		return
	}
	m = rw(m)
	keys := m.MapKeys()
	for _, k := range keys {
		tmp := reflect.New(m.Type().Elem()).Elem()
		tmp.Set(m.MapIndex(k))
		a.move(tmp, fmt.Sprintf("%s[%v]", path, k))
		m.SetMapIndex(k, tmp)
		a.MapValues++
	}
}

// Freeze moves the shared state of the environment (the font, the shared
// lookup lists) into read-only memory.  The environment must not be used for
// controls afterwards.
func (e *Env) Freeze() error {
	if e.arena != nil {
		return nil
	}
	a, err := newArena()
	if err != nil {
		return err
	}
	e.SharedLayouter = nil
	e.orig, e.altGpos = nil, nil
	func() {
		defer func() {
			if r := recover(); r != nil {
				err = fmt.Errorf("freeze: %v", r)
			}
		}()
		a.collect(reflect.ValueOf(&e.Font).Elem(), "Font")
		a.collect(reflect.ValueOf(&e.Lists).Elem(), "Lists")
		a.mergeRegions()
		a.move(reflect.ValueOf(&e.Font).Elem(), "Font")
		a.move(reflect.ValueOf(&e.Lists).Elem(), "Lists")
	}()
	if err != nil {
		return err
	}
	sort.Slice(a.allocs, func(i, j int) bool { return a.allocs[i].lo < a.allocs[j].lo })
	if err := a.protect(syscall.PROT_READ); err != nil {
		return fmt.Errorf("mprotect: %v", err)
	}
	a.frozen = true
	e.arena = a
	return nil
}

// FaultInfo describes a store into the read-only shared state.
type FaultInfo struct {
	Addr   uintptr
	Object string // the moved object and the offset in it
	Frames []string
	Stack  string
}

// repoFrames extracts the function names of the stack, innermost first,
// starting at the faulting frame and ending before the harness.
func repoFrames(stack string) []string {
	var out []string
	lines := strings.Split(stack, "\n")
	started := false
	for _, l := range lines {
		if strings.HasPrefix(l, "\t") || strings.HasPrefix(l, "goroutine ") || l == "" {
			continue
		}
		fn := l
		if i := strings.LastIndex(fn, "("); i > 0 {
			fn = fn[:i]
		}
		if !started {
			// skip the recover machinery down to the faulting frame
			if fn == "panic" || strings.HasPrefix(fn, "runtime.sigpanic") || strings.HasPrefix(fn, "runtime.panicmem") {
				started = true
			}
			continue
		}
		if strings.HasPrefix(fn, "runtime.sigpanic") || strings.HasPrefix(fn, "runtime.panicmem") {
			continue
		}
		if strings.Contains(fn, "verifharness/c16.Op_") || strings.Contains(fn, "verifharness/c16.callFrozen") {
			out = append(out, fn)
			break
		}
		out = append(out, fn)
		if len(out) >= 12 {
			break
		}
	}
	return out
}

// callFrozen runs one operation on a frozen environment; a store into the
// shared state is returned as a FaultInfo (and the result is "fault").
func callFrozen(o *OpSpec, e *Env, tc *ThreadCtx, arg int) (res string, fault *FaultInfo) {
	old := debug.SetPanicOnFault(true)
	defer debug.SetPanicOnFault(old)
	defer func() {
		r := recover()
		if r == nil {
			return
		}
		type addrer interface{ Addr() uintptr }
		if re, ok := r.(runtime.Error); ok {
			if ad, ok := re.(addrer); ok && e.arena != nil && e.arena.contains(ad.Addr()) {
				st := string(debug.Stack())
				fault = &FaultInfo{Addr: ad.Addr(), Object: e.arena.where(ad.Addr()), Frames: repoFrames(st), Stack: st}
				res = "fault"
				return
			}
		}
		res = "panic"
	}()
	return o.Fn(e, tc, arg), nil
}

func (f *FaultInfo) topFrame() string {
	for _, fr := range f.Frames {
		if strings.HasPrefix(fr, "seehuhn.de/go/sfnt") && !strings.Contains(fr, "verifharness") {
			if i := strings.LastIndex(fr, "/"); i >= 0 {
				fr = fr[i+1:]
			}
			return fr
		}
	}
	if len(f.Frames) > 0 {
		return f.Frames[0]
	}
	return "?"
}

var frozenCache = map[string]*Env{}

func getFrozenEnv(name string) (*Env, error) {
	if e, ok := frozenCache[name]; ok {
		return e, nil
	}
	e, err := BuildEnv(name)
	if err != nil {
		return nil, err
	}
	if err := e.Freeze(); err != nil {
		return nil, err
	}
	frozenCache[name] = e
	return e, nil
}
