package c16

// racer.go: entry point of the race-enabled worker (harness/c16/racer, built
// with `go build -race -tags verif`).  It executes case lines of mode "conc"
// with one goroutine per thread on ONE shared font and reports, per case, the
// observation and whatever the race detector wrote during that case.
//
// The detector reports a given pair of stacks only once per process, so the
// worker stops after the first case with a report; the parent re-submits the
// remaining lines to a fresh process.

import (
	"bufio"
	"encoding/json"
	"fmt"
	"os"
	"strings"
)

// RaceEnabled is set by race_on.go when the binary is built with -race.
var RaceEnabled = false

func raceLogPath() string {
	for _, kv := range strings.Fields(os.Getenv("GORACE")) {
		if strings.HasPrefix(kv, "log_path=") {
			return fmt.Sprintf("%s.%d", strings.TrimPrefix(kv, "log_path="), os.Getpid())
		}
	}
	return ""
}

func RacerMain() {
	if len(os.Args) > 1 && os.Args[1] == "-cold" {
		if !RaceEnabled {
			fmt.Fprintln(os.Stderr, "racer: not built with -race")
			os.Exit(3)
		}
		ColdMain(os.Args[2:])
		return
	}
	if len(os.Args) != 3 {
		fmt.Fprintln(os.Stderr, "usage: racer <cases> <results>   (GORACE=log_path=... halt_on_error=0)")
		os.Exit(2)
	}
	if !RaceEnabled {
		fmt.Fprintln(os.Stderr, "racer: not built with -race")
		os.Exit(3)
	}
	logPath := raceLogPath()
	if logPath == "" {
		fmt.Fprintln(os.Stderr, "racer: GORACE=log_path=... is required")
		os.Exit(2)
	}
	var seen int64
	probe := func() string {
		b, err := os.ReadFile(logPath)
		if err != nil {
			return ""
		}
		if int64(len(b)) <= seen {
			return ""
		}
		s := string(b[seen:])
		seen = int64(len(b))
		return s
	}
	in, err := os.Open(os.Args[1])
	if err != nil {
		fmt.Fprintln(os.Stderr, err)
		os.Exit(2)
	}
	defer in.Close()
	out, err := os.Create(os.Args[2])
	if err != nil {
		fmt.Fprintln(os.Stderr, err)
		os.Exit(2)
	}
	defer out.Close()
	w := bufio.NewWriter(out)
	defer w.Flush()
	sc := bufio.NewScanner(in)
	sc.Buffer(make([]byte, 1<<20), 1<<30)
	for sc.Scan() {
		line := strings.TrimSpace(sc.Text())
		if line == "" {
			continue
		}
		var cr caseResult
		c, err := parseCase(line)
		if err != nil {
			cr.Err = "bad case line: " + err.Error()
		} else if c.Mode != "conc" {
			cr.Err = "racer runs conc cases only"
		} else {
			cr = execCase(c, probe)
		}
		b, _ := json.Marshal(cr)
		w.Write(b)
		w.WriteByte('\n')
		w.Flush()
		if cr.Race != "" {
			// later reports of the same stacks would be suppressed
			break
		}
	}
	w.Flush()
	out.Close()
	// exit code 0 even when races were reported (they are in the results)
	os.Exit(0)
}
