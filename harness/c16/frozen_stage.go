package c16

// frozen_stage.go: execution of case lines of mode "frozen" - the operations
// run one at a time (op-granular schedule, as in mode "seq") on an environment
// whose shared state lies in read-only memory (freeze.go).  The model is asked
// the same question as for "seq"; the implementation's observation is
// ((fault 1)) when an operation stored into the shared state.

import (
	"fmt"
	"strings"
)

func execFrozen(c *caseT) (cr caseResult) {
	if c.hasControl() {
		cr.Err = "controls cannot run on a frozen environment"
		return
	}
	ref, err := getEnv(c.Env)
	if err != nil {
		cr.Err = err.Error()
		return
	}
	fe, err := getFrozenEnv(c.Env)
	if err != nil {
		cr.Err = "freezing the environment failed: " + err.Error()
		return
	}
	if fe.pristine == nil {
		fe.pristine = fe.Cells()
	}
	order, err := c.opSchedule()
	if err != nil {
		cr.Err = err.Error()
		return
	}
	// every thread alone on the ordinary (writable) environment; the results
	// of control-free threads are cached as in execCase
	if ref.aloneCache == nil {
		ref.aloneCache = map[string][]string{}
	}
	alone := make([][]string, len(c.Threads))
	for t, ops := range c.Threads {
		key := ""
		for _, o := range ops {
			key += fmt.Sprintf("%s/%d;", o.Name, o.Arg)
		}
		if r, ok := ref.aloneCache[key]; ok {
			alone[t] = r
			continue
		}
		tc := &ThreadCtx{ID: t}
		for _, o := range ops {
			alone[t] = append(alone[t], Call(opIndex[o.Name], ref, tc, o.Arg))
		}
		ref.aloneCache[key] = alone[t]
	}
	got := make([][]string, len(c.Threads))
	tcs := make([]*ThreadCtx, len(c.Threads))
	done := make([]int, len(c.Threads))
	for t := range tcs {
		tcs[t] = &ThreadCtx{ID: t}
		got[t] = make([]string, len(c.Threads[t]))
	}
	var fault *FaultInfo
	var faultOp opInst
	for _, st := range order {
		o := c.Threads[st[0]][st[1]]
		res, f := callFrozen(opIndex[o.Name], fe, tcs[st[0]], o.Arg)
		got[st[0]][st[1]] = res
		done[st[0]]++
		if f != nil && fault == nil {
			fault, faultOp = f, o
		}
	}
	fin := make([]bool, len(c.Threads))
	flags := make([][]bool, len(c.Threads))
	for t := range flags {
		fin[t] = done[t] == len(c.Threads[t])
		flags[t] = make([]bool, done[t])
		for i := range flags[t] {
			flags[t][i] = got[t][i] == alone[t][i]
		}
	}
	diff := sharedOnly(diffCells(fe.pristine, fe.Cells()))
	if fault != nil {
		cr.Impl = "((fault 1))"
		cr.Sig = "shared-write:" + faultOp.Name + ":" + fault.topFrame()
		cr.Fail = fmt.Sprintf("read-only operation %s/%d on %s STORED INTO THE SHARED FONT: write to %s (backing memory mapped read-only, fault address %#x); store made from %s",
			faultOp.Name, faultOp.Arg, c.Env, fault.Object, fault.Addr, strings.Join(fault.Frames, " <- "))
		return
	}
	cr.Impl = observation(flags, fin, diff, "seq", false)
	for t := range flags {
		for i, ok := range flags[t] {
			if ok {
				continue
			}
			o := c.Threads[t][i]
			r1 := Call(opIndex[o.Name], ref, &ThreadCtx{ID: t}, o.Arg)
			if r1 != alone[t][i] {
				cr.Labels = append(cr.Labels, "nondeterministic-alone:"+o.Name)
				flags[t][i] = true
				continue
			}
			cr.Sig = "result-differs:" + o.Name
			cr.Fail = fmt.Sprintf("thread %d op %d (%s %d) on %s returned a different result on the read-only copy of the font than on the ordinary one",
				t, i, o.Name, o.Arg, c.Env)
			return
		}
	}
	if len(cr.Labels) > 0 {
		cr.Impl = observation(flags, fin, diff, "seq", false)
	}
	if len(diff) > 0 {
		names := []string{}
		for _, d := range diff {
			names = append(names, cellName(d.Cell))
		}
		cr.Sig = "hidden-write:" + strings.Join(names, ",")
		cr.Fail = fmt.Sprintf("read-only operations changed the shared font (%s, frozen): cells %s differ from the state before", c.Env, strings.Join(names, ","))
	}
	return
}
