// Command racer is the race-enabled worker of the C16 harness; see
// ../racer.go.  Build: CGO_ENABLED=1 go build -race -tags verif ./c16/racer
package main

import "seehuhn.de/go/sfnt/verifharness/c16"

func main() { c16.RacerMain() }
