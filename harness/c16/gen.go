package c16

// gen.go: case generation, trace recording, the race-enabled worker's
// life cycle, and RunCase for corpus lines and replays.
//
// Stages of a run
//   solo         every operation alone: deterministic? deep hash of every
//                shared cell before/after (tie (i) of DESIGN.md, C16)
//   frozen       every operation alone on a copy of the environment whose
//                shared state is mapped read-only: a store into the font
//                faults even when it is undone before the call returns
//   all-ops      one goroutine per operation, all at once, under the race
//                detector: every pair of operations is concurrent in it
//   pairs        pairs of operations (also an operation with itself)
//   tuples       3..8 goroutines with sequences of operations
//   conc-control one goroutine modifies a field / several share a Layouter:
//                outside the property, the detector MUST report a race (shows
//                that the detector is live) and the model must say "conflict"
//   seq-control  op-granular sequential interleavings with field mutators:
//                validates the model's cell semantics against real fields

import (
	"bufio"
	"bytes"
	"context"
	"encoding/json"
	"fmt"
	"os"
	"os/exec"
	"path/filepath"
	"sort"
	"strings"
	"sync"
	"time"

	"seehuhn.de/go/sfnt/cff"
	"seehuhn.de/go/sfnt/verifharness/vlib"
)

// ---------------------------------------------------------------- racer

func verifRoot() string {
	if r := os.Getenv("VERIF_ROOT"); r != "" {
		return r
	}
	if exe, err := os.Executable(); err == nil {
		// <root>/work/bin/vh-C16
		d := filepath.Dir(filepath.Dir(filepath.Dir(exe)))
		if _, err := os.Stat(filepath.Join(d, "harness", "c16", "racer", "main.go")); err == nil {
			return d
		}
	}
	return "/verif"
}

var racerBuilt string
var racerStats = struct {
	Processes, Cases int
	BuildS, RunS     float64
}{}

func goEnv() []string {
	env := []string{}
	for _, kv := range os.Environ() {
		if strings.HasPrefix(kv, "CGO_ENABLED=") || strings.HasPrefix(kv, "GORACE=") || strings.HasPrefix(kv, "GOFLAGS=") {
			continue
		}
		env = append(env, kv)
	}
	return append(env, "CGO_ENABLED=1", "GOFLAGS=-mod=mod", "GOPROXY=off", "GOSUMDB=off", "GOTOOLCHAIN=local")
}

// ensureRacer builds harness/c16/racer with the race detector against the
// tree as it is now (the same replace directive as the ordinary harness).
func ensureRacer() (string, error) {
	if racerBuilt != "" {
		return racerBuilt, nil
	}
	root := verifRoot()
	dir := filepath.Join(root, "work", "C16")
	if err := os.MkdirAll(filepath.Join(dir, "racelog"), 0o755); err != nil {
		return "", err
	}
	out := filepath.Join(dir, "racer")
	// several generator processes may run at once (the check starts further
	// seeds in parallel when the anchored source differs from the baseline):
	// build under a name of our own, then rename (atomic)
	tmp := fmt.Sprintf("%s.%d.tmp", out, os.Getpid())
	t0 := time.Now()
	ctx, cancel := context.WithTimeout(context.Background(), 10*time.Minute)
	defer cancel()
	cmd := exec.CommandContext(ctx, "go", "build", "-race", "-tags", "verif", "-o", tmp, "./c16/racer")
	cmd.Dir = filepath.Join(root, "harness")
	cmd.Env = goEnv()
	b, err := cmd.CombinedOutput()
	racerStats.BuildS = time.Since(t0).Seconds()
	if err != nil {
		os.Remove(tmp)
		return "", fmt.Errorf("building the race-enabled worker failed: %v\n%s", err, b)
	}
	if err := os.Rename(tmp, out); err != nil {
		return "", err
	}
	racerBuilt = out
	return out, nil
}

// runRacer executes conc case lines in the race-enabled worker, restarting it
// after every case with a race report (and after a crash).
func runRacer(lines []string) ([]caseResult, error) { return runRacerW(lines, 0) }

// runRacerParallel splits the lines over k worker processes.
func runRacerParallel(lines []string, k int) ([]caseResult, error) {
	if _, err := ensureRacer(); err != nil {
		return nil, err
	}
	if k < 1 {
		k = 1
	}
	type part struct {
		res []caseResult
		err error
	}
	parts := make([]part, k)
	var wg sync.WaitGroup
	for w := 0; w < k; w++ {
		lo, hi := len(lines)*w/k, len(lines)*(w+1)/k
		wg.Add(1)
		go func(w, lo, hi int) {
			defer wg.Done()
			parts[w].res, parts[w].err = runRacerW(lines[lo:hi], w+1)
		}(w, lo, hi)
	}
	wg.Wait()
	var out []caseResult
	for _, p := range parts {
		if p.err != nil {
			return nil, p.err
		}
		out = append(out, p.res...)
	}
	return out, nil
}

var racerMu sync.Mutex

func runRacerW(lines []string, worker int) ([]caseResult, error) {
	racerMu.Lock()
	exe, err := ensureRacer()
	racerMu.Unlock()
	if err != nil {
		return nil, err
	}
	if len(lines) == 0 {
		return nil, nil
	}
	dir := filepath.Dir(exe)
	var results []caseResult
	pending := lines
	t0 := time.Now()
	for len(pending) > 0 {
		in := filepath.Join(dir, fmt.Sprintf("racer_in%d_%d.txt", os.Getpid(), worker))
		outp := filepath.Join(dir, fmt.Sprintf("racer_out%d_%d.jsonl", os.Getpid(), worker))
		if err := os.WriteFile(in, []byte(strings.Join(pending, "\n")+"\n"), 0o644); err != nil {
			return nil, err
		}
		os.Remove(outp)
		ctx, cancel := context.WithTimeout(context.Background(), 20*time.Minute)
		cmd := exec.CommandContext(ctx, exe, in, outp)
		cmd.Env = append(goEnv(), "GORACE=log_path="+filepath.Join(dir, "racelog", "r")+" halt_on_error=0 exitcode=0 history_size=7")
		var stderr bytes.Buffer
		cmd.Stderr = &stderr
		cmd.Stdout = &stderr
		runErr := cmd.Run()
		cancel()
		racerMu.Lock()
		racerStats.Processes++
		racerMu.Unlock()
		var got []caseResult
		if f, err := os.Open(outp); err == nil {
			sc := bufio.NewScanner(f)
			sc.Buffer(make([]byte, 1<<20), 1<<28)
			for sc.Scan() {
				var cr caseResult
				if json.Unmarshal(sc.Bytes(), &cr) == nil {
					got = append(got, cr)
				}
			}
			f.Close()
		}
		os.Remove(in)
		os.Remove(outp)
		if len(got) > len(pending) {
			got = got[:len(pending)]
		}
		results = append(results, got...)
		pending = pending[len(got):]
		if runErr != nil && len(pending) > 0 {
			// the worker died inside the next case (e.g. the runtime's fatal
			// "concurrent map read and map write"): that is an observation
			tail := stderr.String()
			if len(tail) > 3000 {
				tail = tail[:3000]
			}
			if ee, ok := runErr.(*exec.ExitError); ok && ee.ExitCode() == 3 {
				return nil, fmt.Errorf("worker was not built with the race detector")
			}
			cr := caseResult{Impl: "(crash)", Sig: "crash:" + crashKind(tail),
				Fail: "the worker process died while running this case: " + firstLines(tail, 30)}
			if c, err := parseCase(pending[0]); err == nil && c.hasControl() {
				cr.Fail, cr.Sig = "", ""
			}
			results = append(results, cr)
			pending = pending[1:]
		} else if len(got) == 0 && len(pending) > 0 {
			return nil, fmt.Errorf("race-enabled worker produced no result: %v %s", runErr, stderr.String())
		}
	}
	racerMu.Lock()
	racerStats.Cases += len(lines)
	racerStats.RunS += time.Since(t0).Seconds()
	racerMu.Unlock()
	return results, nil
}

func crashKind(s string) string {
	for _, l := range strings.Split(s, "\n") {
		if strings.HasPrefix(l, "fatal error:") {
			return strings.ReplaceAll(strings.TrimSpace(strings.TrimPrefix(l, "fatal error:")), " ", "-")
		}
	}
	return "unknown"
}

// ---------------------------------------------------------------- traces

type opKey struct {
	name string
	arg  int
}

type soloInfo struct {
	res    string
	w      []CellVal // shared cells that differ after the operation ran alone
	nondet bool
}

const (
	depNone = iota
	depFull
	depPartial
)

type envInfo struct {
	e        *Env
	pristine []CellVal
	solo     map[opKey]*soloInfo
	dep      map[opKey]map[string]int // filled by inferDeps
	mutCell  map[int]string           // cell -> mutable field name
}

func newEnvInfo(name string) (*envInfo, error) {
	e, err := getEnv(name)
	if err != nil {
		return nil, err
	}
	e.restoreAll(true)
	ei := &envInfo{e: e, pristine: e.Cells(), solo: map[opKey]*soloInfo{}, mutCell: map[int]string{}}
	for _, m := range mutFields {
		ei.mutCell[fieldCell(m)] = m
	}
	return ei, nil
}

// soloRun runs one operation alone (reps times) and records result,
// determinism and the cells it changed.
func (ei *envInfo) soloRun(o *OpSpec, arg, reps int) *soloInfo {
	k := opKey{o.Name, arg}
	if s, ok := ei.solo[k]; ok {
		return s
	}
	s := &soloInfo{}
	s.res = Call(o, ei.e, &ThreadCtx{}, arg)
	after := ei.e.Cells()
	s.w = sharedOnly(diffCells(ei.pristine, after))
	if o.Name == "LayoutShared" {
		for _, cv := range diffCells(ei.pristine, after) {
			if cv.Cell == CellShLay {
				s.w = append(s.w, cv)
			}
		}
	}
	if o.Control == "mutator" {
		// a mutator's trace is "cell := value" even when the value happens to
		// be the one the cell already has
		s.w = nil
		for _, cv := range after {
			if cv.Cell == fieldCell(o.Field) {
				s.w = []CellVal{cv}
			}
		}
	}
	ei.e.restoreAll(o.Name == "LayoutShared")
	if o.Control == "" {
		for i := 1; i < reps; i++ {
			if Call(o, ei.e, &ThreadCtx{}, arg) != s.res {
				s.nondet = true
			}
		}
	}
	ei.solo[k] = s
	return s
}

// inferDeps finds, for the mutable fields, which operations' results depend
// on them: the field is set to each alternative value on the (otherwise
// unshared) font, the operation is run, the field is restored.  This is the
// hook-free approximation of the operation's read trace at field granularity.
func (ei *envInfo) inferDeps(o *OpSpec, arg int) map[string]int {
	k := opKey{o.Name, arg}
	if ei.dep == nil {
		ei.dep = map[opKey]map[string]int{}
	}
	if d, ok := ei.dep[k]; ok {
		return d
	}
	d := map[string]int{}
	base := ei.soloRun(o, arg, 1).res
	for _, m := range mutFields {
		if m == "Gpos" && ei.e.Font.Gpos == nil {
			continue
		}
		rs := []string{base}
		for a := 1; a < numAlt(m); a++ {
			ei.e.setField(m, a)
			rs = append(rs, Call(o, ei.e, &ThreadCtx{}, arg))
			ei.e.setField(m, 0)
		}
		distinct := map[string]bool{}
		for _, r := range rs {
			distinct[r] = true
		}
		switch len(distinct) {
		case 1:
			d[m] = depNone
		case len(rs):
			d[m] = depFull
		default:
			d[m] = depPartial
		}
	}
	ei.dep[k] = d
	return d
}

// trace builds the recorded trace of one operation instance of thread t.
// Reads: every shared cell that is never modified in any case (conservative:
// the operation may read it), the mutable cells the result depends on, the
// thread's private cell for operations that keep a Layouter.  Writes: the
// cells whose deep hash changed when the operation ran alone.
func (ei *envInfo) trace(o *OpSpec, arg, t int, withDeps bool) opInst {
	oi := opInst{Name: o.Name, Arg: arg}
	s := ei.soloRun(o, arg, 1)
	if o.Control == "mutator" {
		oi.W = append(oi.W, s.w...)
		return oi
	}
	var d map[string]int
	if withDeps {
		d = ei.inferDeps(o, arg)
	}
	for _, cv := range ei.pristine {
		if cv.Cell == CellShLay {
			if o.Name == "LayoutShared" {
				oi.R = append(oi.R, cv.Cell)
			}
			continue
		}
		if m, ok := ei.mutCell[cv.Cell]; ok && withDeps {
			if d[m] != depNone {
				oi.R = append(oi.R, cv.Cell)
			}
			continue
		}
		oi.R = append(oi.R, cv.Cell)
	}
	oi.W = append(oi.W, s.w...)
	if o.Priv {
		c := CellPrivBase * (t + 1)
		oi.R = append(oi.R, c)
		oi.W = append(oi.W, CellVal{c, hash32(strHash(s.res))})
	}
	return oi
}

// ---------------------------------------------------------------- schedules

func threadSteps(th []opInst) int {
	n := 0
	for _, o := range th {
		n += o.steps()
	}
	return n
}

// stepSchedule produces a complete step-level interleaving in one of several
// styles; it returns the style name.
func stepSchedule(r *vlib.Rand, threads [][]opInst) ([]int, string) {
	rem := make([]int, len(threads))
	total := 0
	for t, th := range threads {
		rem[t] = threadSteps(th)
		total += rem[t]
	}
	sched := make([]int, 0, total)
	style := vlib.Pick(r, []string{"uniform", "roundrobin", "bursts", "sequential", "reverse", "uniform"})
	switch style {
	case "sequential":
		for t := range threads {
			for ; rem[t] > 0; rem[t]-- {
				sched = append(sched, t)
			}
		}
	case "reverse":
		for t := len(threads) - 1; t >= 0; t-- {
			for ; rem[t] > 0; rem[t]-- {
				sched = append(sched, t)
			}
		}
	case "roundrobin":
		for len(sched) < total {
			for t := range threads {
				if rem[t] > 0 {
					sched = append(sched, t)
					rem[t]--
				}
			}
		}
	default:
		for len(sched) < total {
			t := r.Intn(len(threads))
			if rem[t] == 0 {
				continue
			}
			k := 1
			if style == "bursts" {
				k = r.Range(1, 25)
			}
			for ; k > 0 && rem[t] > 0; k-- {
				sched = append(sched, t)
				rem[t]--
			}
		}
	}
	return sched, style
}

// opSchedule: a random interleaving of whole operations, expanded to steps.
func opLevelSchedule(r *vlib.Rand, threads [][]opInst) []int {
	next := make([]int, len(threads))
	left := 0
	for _, th := range threads {
		left += len(th)
	}
	var sched []int
	for left > 0 {
		t := r.Intn(len(threads))
		if next[t] >= len(threads[t]) {
			continue
		}
		for k := threads[t][next[t]].steps(); k > 0; k-- {
			sched = append(sched, t)
		}
		next[t]++
		left--
	}
	return sched
}

func interleaved(sched []int) bool {
	// not a concatenation of whole threads: some thread id reappears after
	// another one was seen
	seen := map[int]bool{}
	last := -1
	for _, t := range sched {
		if t != last {
			if seen[t] {
				return true
			}
			seen[t] = true
			last = t
		}
	}
	return false
}

// ---------------------------------------------------------------- Gen

type pendingCase struct {
	c      *caseT
	labels []string
	nt     bool
}

func caseLabels(c *caseT, stage string, extra ...string) []string {
	l := []string{"stage:" + stage, "mode:" + c.Mode, "env:" + c.Env, fmt.Sprintf("threads:%d", len(c.Threads))}
	seen := map[string]bool{}
	for _, t := range c.Threads {
		for _, o := range t {
			if !seen[o.Name] {
				seen[o.Name] = true
				l = append(l, "op:"+o.Name)
			}
		}
	}
	return append(l, extra...)
}

func nontrivial(c *caseT) bool {
	ops := map[string]bool{}
	for _, t := range c.Threads {
		for _, o := range t {
			ops[fmt.Sprint(o.Name, o.Arg)] = true
		}
	}
	return len(c.Threads) >= 2 && len(ops) >= 2 && interleaved(c.Sched)
}

func record(run *vlib.Run, pc pendingCase, cr caseResult) {
	line := pc.c.Line()
	labels := append(pc.labels, cr.Labels...)
	if cr.Race != "" {
		labels = append(labels, "race-reported")
	}
	if cr.Err != "" {
		// a harness-level problem is never silently dropped
		idx := run.Add("!"+line, "(harness-error)", false, append(labels, "harness-error")...)
		run.Fail(idx, line, "harness error: "+cr.Err, "harness-error")
		return
	}
	idx := run.Add(line, cr.Impl, pc.nt, labels...)
	if pc.nt && len(pc.labels) > 0 && !sampledStage[pc.labels[0]] && len(run.Samples) < 5 {
		// the full lines carry the traces and are long; the evidence gets an
		// abbreviated rendering of real cases, one per stage
		sampledStage[pc.labels[0]] = true
		run.Samples = append(run.Samples, abbreviate(pc.c)+" => "+cr.Impl)
	}
	if cr.Fail != "" {
		run.Fail(idx, line, cr.Fail, cr.Sig)
	}
}

var sampledStage = map[string]bool{}

func abbreviate(c *caseT) string {
	var th []string
	for _, t := range c.Threads {
		var ops []string
		for _, o := range t {
			ops = append(ops, fmt.Sprintf("%s/%d[r%d w%d]", o.Name, o.Arg, len(o.R), len(o.W)))
		}
		th = append(th, strings.Join(ops, " "))
	}
	sc := fmt.Sprint(c.Sched)
	if len(c.Sched) > 24 {
		sc = fmt.Sprintf("%v...(%d steps)", c.Sched[:24], len(c.Sched))
	}
	return fmt.Sprintf("%s %s threads{%s} sched%s", c.Mode, c.Env, strings.Join(th, " | "), sc)
}

func Gen(run *vlib.Run, seed uint64, tier string) {
	run.Rule = "a case = threads (sequences of operations on one shared font) + a schedule; non-trivial = at least 2 threads, at least 2 distinct operations, and the schedule given to the model interleaves the threads (is not a concatenation of whole threads); distinct by (environment, threads with their recorded traces, schedule)"
	r := vlib.NewRand(seed)
	thorough := tier == "thorough"
	t0 := time.Now()

	envNames := QuickEnvNames // the last three are richenv.go: every subtable kind, every slice-typed field with >= 3 distinct elements
	depEnvs := []string{"cff-gtab", "glyf-sub"}
	if thorough {
		envNames = AllEnvNames()
		depEnvs = []string{"cff-gtab", "cff-sub", "glyf-gtab", "glyf-sub", "cff-cid", "rt-cid3"}
	}
	infos := map[string]*envInfo{}
	for _, n := range envNames {
		ei, err := newEnvInfo(n)
		if err != nil {
			idx := run.Add("!env "+n, "(harness-error)", false, "harness-error")
			run.Fail(idx, "env "+n, "environment cannot be built: "+err.Error(), "harness-error")
			continue
		}
		infos[n] = ei
	}
	var nondet []string

	// ---- stage solo (in this process, no race detector)
	soloReps := vlib.Count(tier, 4, 12)
	for _, n := range envNames {
		ei := infos[n]
		if ei == nil {
			continue
		}
		for _, o := range PropertyOps(ei.e) {
			for a := 0; a < o.NArg; a++ {
				s := ei.soloRun(o, a, soloReps)
				th := [][]opInst{{ei.trace(o, a, 0, false)}}
				c := &caseT{Mode: "seq", Env: n, Heap: ei.pristine, Threads: th}
				c.Sched = opLevelSchedule(r, th)
				labels := caseLabels(c, "solo")
				if s.res == "panic" {
					labels = append(labels, "result:panic")
				}
				if s.nondet {
					nondet = append(nondet, fmt.Sprintf("%s:%s/%d", n, o.Name, a))
					labels = append(labels, "nondeterministic-alone:"+o.Name)
				}
				cr := execCase(c, nil)
				record(run, pendingCase{c, labels, false}, cr)
			}
		}
	}
	run.Extra["nondeterministic_alone"] = nondet
	tSolo := time.Since(t0).Seconds()

	// ---- the rich environments must populate every slice-typed field of every
	// subtable kind, and every subtable kind of the source tree must be known
	{
		var rich []*Env
		for _, n := range envNames {
			if isRichEnv(n) && infos[n] != nil {
				rich = append(rich, infos[n].e)
			}
		}
		gaps, stats := coverageGaps(rich)
		run.Extra["slice_field_max_distinct_elements"] = stats
		if len(gaps) > 0 {
			idx := run.Add("!coverage "+strings.Join(gaps, " "), "(harness-error)", false, "harness-error")
			run.Fail(idx, "coverage", "the rich environments leave slice-typed fields with fewer than 3 distinct elements: "+strings.Join(gaps, " "), "harness-error")
		}
		kinds, kerr := subtableKindsInSource()
		run.Extra["subtable_kinds_in_source"] = kinds
		known := knownKindNames()
		var unknown []string
		for _, k := range kinds {
			if !known[k] && !strings.HasPrefix(k, "Verif") && k != "extensionSubtable" {
				unknown = append(unknown, k)
			}
		}
		if kerr != nil || len(unknown) > 0 {
			idx := run.Add("!kinds "+strings.Join(unknown, " "), "(harness-error)", false, "harness-error")
			run.Fail(idx, "kinds", fmt.Sprintf("subtable kinds of the source tree the environments do not cover: %v %v", unknown, kerr), "harness-error")
		}
	}

	// ---- stage frozen (in this process): every operation alone on a copy of
	// the environment whose shared state is mapped read-only; a store into it
	// faults, whatever is written and whether or not it is undone later
	frozenStats := map[string]any{}
	for _, n := range envNames {
		ei := infos[n]
		if ei == nil {
			continue
		}
		for _, o := range PropertyOps(ei.e) {
			for a := 0; a < o.NArg; a++ {
				if s := ei.solo[opKey{o.Name, a}]; s != nil && s.nondet {
					continue
				}
				th := [][]opInst{{ei.trace(o, a, 0, false)}}
				c := &caseT{Mode: "frozen", Env: n, Heap: ei.pristine, Threads: th}
				c.Sched = opLevelSchedule(r, th)
				cr := execFrozen(c)
				record(run, pendingCase{c, caseLabels(c, "frozen"), false}, cr)
			}
		}
		if fe := frozenCache[n]; fe != nil && fe.arena != nil {
			frozenStats[n] = map[string]int{"objects": fe.arena.Objects, "backing_arrays": fe.arena.Slices, "boxes": fe.arena.Boxes,
				"map_values": fe.arena.MapValues, "bytes": int(fe.arena.off)}
		}
	}
	run.Extra["frozen_envs"] = frozenStats
	tFrozen := time.Since(t0).Seconds() - tSolo
	usable := func(ei *envInfo, o *OpSpec, a int) bool {
		s := ei.solo[opKey{o.Name, a}]
		return s == nil || !s.nondet
	}
	type opArg struct {
		o *OpSpec
		a int
	}
	opArgs := func(ei *envInfo) []opArg {
		var out []opArg
		for _, o := range PropertyOps(ei.e) {
			for a := 0; a < o.NArg; a++ {
				if usable(ei, o, a) {
					out = append(out, opArg{o, a})
				}
			}
		}
		return out
	}

	// ---- stage seq-control (in this process): field mutators, op-granular
	nSeq := vlib.Count(tier, 160, 4000)
	for i := 0; i < nSeq; i++ {
		ei := infos[vlib.Pick(r, depEnvs)]
		if ei == nil {
			continue
		}
		oa := opArgs(ei)
		nth := r.Range(2, 4)
		// the mutable fields this case touches
		var fields []string
		for _, m := range mutFields {
			if (m != "Gpos" || ei.e.Font.Gpos != nil) && r.Chance(1, 3) {
				fields = append(fields, m)
			}
		}
		if len(fields) == 0 {
			fields = []string{"Version"}
		}
		threads := make([][]opInst, nth)
		for t := range threads {
			for k := r.Range(1, 4); k > 0; k-- {
				if r.Chance(2, 5) {
					m := vlib.Pick(r, fields)
					threads[t] = append(threads[t], ei.trace(opIndex["Set"+m], r.Intn(numAlt(m)), t, true))
					continue
				}
				for try := 0; try < 20; try++ {
					x := vlib.Pick(r, oa)
					d := ei.inferDeps(x.o, x.a)
					ok := true
					for _, m := range fields {
						// an operation that keeps a Layouter across calls reads the
						// layout tables when the Layouter is made, not at every call:
						// at operation granularity its dependence on a mutated field
						// is neither "reads it" nor "does not"
						if d[m] == depPartial || (x.o.Priv && d[m] != depNone) {
							ok = false
						}
					}
					if ok {
						threads[t] = append(threads[t], ei.trace(x.o, x.a, t, true))
						break
					}
				}
			}
			if len(threads[t]) == 0 {
				threads[t] = append(threads[t], ei.trace(opIndex["GetFontInfo"], 0, t, true))
			}
		}
		c := &caseT{Mode: "seq", Env: ei.e.Name, Heap: ei.pristine, Threads: threads}
		c.Sched = opLevelSchedule(r, threads)
		extra := []string{}
		if c.hasControl() {
			extra = append(extra, "control:mutator")
		}
		cr := execCase(c, nil)
		record(run, pendingCase{c, caseLabels(c, "seq-control", extra...), nontrivial(c)}, cr)
	}
	// ---- stage boundary (in this process): empty threads, idle steps (ids of
	// finished or non-existent threads) and schedules that stop early
	for i := vlib.Count(tier, 24, 400); i > 0; i-- {
		ei := infos[vlib.Pick(r, depEnvs)]
		if ei == nil {
			continue
		}
		oa := opArgs(ei)
		nth := r.Range(1, 4)
		threads := make([][]opInst, nth)
		mut := vlib.Pick(r, []string{"Version", "FamilyName", "UnitsPerEm"})
		for t := range threads {
			if r.Chance(1, 5) {
				continue // a thread without operations
			}
			for k := r.Range(1, 3); k > 0; k-- {
				if r.Chance(1, 3) {
					threads[t] = append(threads[t], ei.trace(opIndex["Set"+mut], r.Intn(3), t, true))
				} else {
					x := vlib.Pick(r, oa)
					if dm := ei.inferDeps(x.o, x.a)[mut]; dm != depPartial && !(x.o.Priv && dm != depNone) {
						threads[t] = append(threads[t], ei.trace(x.o, x.a, t, true))
					}
				}
			}
		}
		c := &caseT{Mode: "seq", Env: ei.e.Name, Heap: ei.pristine, Threads: threads}
		// op-granular order, possibly cut short, with idle steps between operations
		next := make([]int, nth)
		left := 0
		for _, th := range threads {
			left += len(th)
		}
		stopAt := left
		if r.Chance(1, 2) {
			stopAt = r.Intn(left + 1)
		}
		for done := 0; done < stopAt; {
			if r.Chance(1, 4) {
				c.Sched = append(c.Sched, nth+r.Intn(3)) // no such thread
			}
			t := r.Intn(nth)
			if next[t] >= len(threads[t]) {
				if r.Chance(1, 3) {
					c.Sched = append(c.Sched, t) // finished (or empty) thread
				}
				continue
			}
			for k := threads[t][next[t]].steps(); k > 0; k-- {
				c.Sched = append(c.Sched, t)
			}
			next[t]++
			done++
		}
		extra := []string{}
		if stopAt < left {
			extra = append(extra, "sched:incomplete")
		}
		if c.hasControl() {
			extra = append(extra, "control:mutator")
		}
		cr := execCase(c, nil)
		record(run, pendingCase{c, caseLabels(c, "boundary", extra...), nontrivial(c)}, cr)
	}

	depSummary := map[string]int{}
	for _, n := range depEnvs {
		if ei := infos[n]; ei != nil {
			for _, d := range ei.dep {
				for m, v := range d {
					depSummary[fmt.Sprintf("%s:%s", m, []string{"independent", "dependent", "partial"}[v])]++
				}
			}
		}
	}
	run.Extra["field_dependencies"] = depSummary
	tSeq := time.Since(t0).Seconds()

	// ---- concurrent stages (race-enabled worker)
	var pend []pendingCase
	addConc := func(ei *envInfo, threads [][]opInst, stage string, extra ...string) {
		c := &caseT{Mode: "conc", Env: ei.e.Name, Heap: ei.pristine, Threads: threads}
		var style string
		c.Sched, style = stepSchedule(r, threads)
		pend = append(pend, pendingCase{c, caseLabels(c, stage, append(extra, "sched:"+style)...), nontrivial(c)})
	}
	hasDeps := func(n string) bool {
		for _, d := range depEnvs {
			if d == n {
				return true
			}
		}
		return false
	}
	for _, n := range envNames {
		ei := infos[n]
		if ei == nil {
			continue
		}
		oa := opArgs(ei)
		wd := hasDeps(n)
		// all-ops: one goroutine per operation (argument 0 and the last one)
		reps := vlib.Count(tier, 1, 3)
		for k := 0; k < reps; k++ {
			var threads [][]opInst
			for _, x := range oa {
				if x.a == 0 || x.a == x.o.NArg-1 || thorough {
					threads = append(threads, []opInst{ei.trace(x.o, x.a, len(threads), wd)})
				}
			}
			addConc(ei, threads, "all-ops")
		}
		// pairs
		var pairs [][2]opArg
		for i := range oa {
			for j := i; j < len(oa); j++ {
				if oa[i].a == 0 && oa[j].a == 0 {
					pairs = append(pairs, [2]opArg{oa[i], oa[j]})
				}
			}
		}
		nPairs := len(pairs)
		if !thorough {
			nPairs = 20
		}
		// CID-keyed fonts: every pair of the operations that go through
		// Outlines.FDSelect (a function value the readers build), with
		// arguments that make them visit the FDSelect ranges in different
		// orders
		if o, ok := ei.e.Font.Outlines.(*cff.Outlines); ok && o.IsCIDKeyed() {
			fdOps := []opArg{
				{opIndex["Write"], 0}, {opIndex["WritePDF"], 0}, {opIndex["AsCFFWrite"], 0},
				{opIndex["Subset"], 4}, {opIndex["SubsetWrite"], 5}, {opIndex["Subset"], 3},
				{opIndex["FDSweep"], 0}, {opIndex["FDSweep"], 1}, {opIndex["FDSweep"], 3},
				{opIndex["Widths"], 0}, {opIndex["GlyphBBox"], 0}, {opIndex["FontBBox"], 0},
			}
			for i := range fdOps {
				for j := i; j < len(fdOps); j++ {
					if thorough || r.Chance(1, 3) {
						addConc(ei, [][]opInst{{ei.trace(fdOps[i].o, fdOps[i].a, 0, wd)}, {ei.trace(fdOps[j].o, fdOps[j].a, 1, wd)}}, "pairs", "fdselect-pair")
					}
				}
			}
		}
		perm := make([]int, len(pairs))
		for i := range perm {
			perm[i] = i
		}
		for i := len(perm) - 1; i > 0; i-- {
			j := r.Intn(i + 1)
			perm[i], perm[j] = perm[j], perm[i]
		}
		for _, pi := range perm[:min(nPairs, len(perm))] {
			p := pairs[pi]
			addConc(ei, [][]opInst{{ei.trace(p[0].o, p[0].a, 0, wd)}, {ei.trace(p[1].o, p[1].a, 1, wd)}}, "pairs")
		}
		// rich environments: every pair of the operations that walk the layout
		// tables (explain, encode, write, apply through a Context, layout
		// through a Layouter), also each with itself
		if isRichEnv(n) {
			names := []string{"ExplainGsub", "ExplainGpos", "EncodeGtab", "Write", "ApplyGsub", "ApplyGpos", "ApplyLists", "Layout", "LayoutOwn", "Clone"}
			var gt []opArg
			for _, nm := range names {
				if o := opIndex[nm]; o != nil && o.Applicable(ei.e) && usable(ei, o, 0) {
					gt = append(gt, opArg{o, 0})
				}
			}
			for i := range gt {
				for j := i; j < len(gt); j++ {
					addConc(ei, [][]opInst{{ei.trace(gt[i].o, gt[i].a, 0, wd)}, {ei.trace(gt[j].o, gt[j].a, 1, wd)}}, "pairs", "gtab-pair")
				}
			}
		}
		// tuples
		for k := vlib.Count(tier, 6, 100); k > 0; k-- {
			nth := r.Range(3, 8)
			threads := make([][]opInst, nth)
			for t := range threads {
				for q := r.Range(1, 3); q > 0; q-- {
					x := vlib.Pick(r, oa)
					threads[t] = append(threads[t], ei.trace(x.o, x.a, t, wd))
				}
			}
			addConc(ei, threads, "tuples")
		}
	}
	// conc-control: expected races
	for _, n := range depEnvs {
		ei := infos[n]
		if ei == nil {
			continue
		}
		oa := opArgs(ei)
		nCtl := vlib.Count(tier, 3, 12)
		for k := 0; k < nCtl; k++ {
			// fields that have an 8-byte word of their own: the detector keeps
			// the last 4 accesses per word, and a write to one of the adjacent
			// bool/int16 fields can be evicted before the conflicting read
			m := vlib.Pick(r, []string{"FamilyName", "Version", "Copyright", "UnitsPerEm", "UnderlinePosition", "Gpos"})
			if m == "Gpos" && ei.e.Font.Gpos == nil {
				m = "Version"
			}
			var dependent []opArg
			for _, x := range oa {
				if ei.inferDeps(x.o, x.a)[m] == depFull {
					dependent = append(dependent, x)
				}
			}
			if len(dependent) == 0 {
				continue
			}
			x := vlib.Pick(r, dependent)
			threads := [][]opInst{
				{ei.trace(opIndex["Set"+m], 1, 0, true)},
				{ei.trace(x.o, x.a, 1, true)},
			}
			if r.Bool() {
				y := vlib.Pick(r, dependent)
				threads = append(threads, []opInst{ei.trace(y.o, y.a, 2, true)})
			}
			addConc(ei, threads, "conc-control", "control:mutator")
		}
		if ei.e.SharedLayouter != nil {
			o := opIndex["LayoutShared"]
			threads := [][]opInst{{ei.trace(o, 0, 0, true)}, {ei.trace(o, 0, 1, true)}}
			addConc(ei, threads, "conc-control", "control:shared-layouter")
		}
	}

	// the all-ops cases first, each in a worker process of its own: whatever
	// package-level state the library initialises lazily is then first touched
	// by many goroutines at once
	sort.SliceStable(pend, func(i, j int) bool {
		return pend[i].labels[0] == "stage:all-ops" && pend[j].labels[0] != "stage:all-ops"
	})
	lines := make([]string, len(pend))
	for i, pc := range pend {
		lines[i] = pc.c.Line()
	}
	var results []caseResult
	var err error
	nOwn := 0
	for nOwn < len(pend) && pend[nOwn].labels[0] == "stage:all-ops" {
		nOwn++
	}
	{
		own := make([][]caseResult, nOwn)
		errs := make([]error, nOwn)
		sem := make(chan struct{}, 3)
		var wg sync.WaitGroup
		for i := 0; i < nOwn; i++ {
			wg.Add(1)
			go func(i int) {
				defer wg.Done()
				sem <- struct{}{}
				own[i], errs[i] = runRacerW(lines[i:i+1], 100+i)
				<-sem
			}(i)
		}
		wg.Wait()
		for i := 0; i < nOwn; i++ {
			if errs[i] != nil && err == nil {
				err = errs[i]
			}
			results = append(results, own[i]...)
		}
	}
	if err == nil {
		var rs []caseResult
		rs, err = runRacerParallel(lines[nOwn:], 3)
		results = append(results, rs...)
	}
	if err != nil {
		idx := run.Add("!racer", "(harness-error)", false, "harness-error")
		run.Fail(idx, "racer", "the race-enabled worker could not be used: "+err.Error(), "harness-error")
	} else {
		expectedRaces, reportedOnControls, retried := 0, 0, 0
		for i, pc := range pend {
			if i >= len(results) {
				break
			}
			if pc.c.hasControl() {
				expectedRaces++
				// the detector's shadow memory is finite: give a control whose
				// race was not reported two more runs in fresh processes
				for try := 0; try < 3 && results[i].Race == "" && results[i].Err == ""; try++ {
					retried++
					if rs, err := runRacer([]string{lines[i]}); err == nil && len(rs) == 1 {
						results[i] = rs[0]
					}
				}
				if results[i].Race != "" {
					reportedOnControls++
				}
			}
			record(run, pc, results[i])
		}
		run.Extra["race_controls"] = map[string]int{"expected": expectedRaces, "reported": reportedOnControls, "reruns": retried}
	}
	// ---- cold start: first concurrent use in fresh processes (cold.go)
	tc0 := time.Now()
	genCold(run, tier)
	tCold := time.Since(tc0).Seconds()
	run.Extra["racer"] = map[string]any{
		"binary":    "work/C16/racer (go build -race -tags verif ./c16/racer, CGO_ENABLED=1)",
		"processes": racerStats.Processes, "cases": racerStats.Cases,
		"build_s": round1(racerStats.BuildS), "worker_s_summed": round1(racerStats.RunS), "parallel_workers": 3,
	}
	run.Extra["stage_wall_s"] = map[string]float64{"solo": round1(tSolo), "frozen": round1(tFrozen), "solo+frozen+seq": round1(tSeq), "cold": round1(tCold), "total": round1(time.Since(t0).Seconds())}
	cells := []string{}
	for _, cv := range infos[envNames[0]].pristine {
		cells = append(cells, fmt.Sprintf("%d=%s", cv.Cell, cellName(cv.Cell)))
	}
	sort.Strings(cells)
	run.Extra["cells"] = cells
}

func round1(x float64) float64 { return float64(int(x*10+0.5)) / 10 }

// RunCase re-executes one case line (corpus entries and replays).
func RunCase(line string) (impl, fail, sig string, err error) {
	line = strings.TrimPrefix(line, "!")
	if strings.HasPrefix(line, "cold ") {
		return runColdLine(line)
	}
	c, err := parseCase(line)
	if err != nil {
		return "", "", "", err
	}
	var cr caseResult
	if c.Mode == "frozen" {
		cr = execFrozen(c)
	} else if c.Mode == "conc" {
		rs, rerr := runRacer([]string{line})
		if rerr != nil {
			return "(harness-error)", "the race-enabled worker could not be used: " + rerr.Error(), "harness-error", nil
		}
		cr = rs[0]
	} else {
		cr = execCase(c, nil)
	}
	if cr.Err != "" {
		return "(harness-error)", "harness error: " + cr.Err, "harness-error", nil
	}
	return cr.Impl, cr.Fail, cr.Sig, nil
}
