package c16

// cold.go: COLD-START cases.
//
// Every other stage of this harness runs an operation alone before it runs it
// concurrently (the solo stage, the alone results the concurrent stage compares
// with).  State that the library builds lazily on first use - package-level
// tables, caches filled by the first caller - is therefore always complete
// before two goroutines meet, and a first use that is not safe for concurrent
// callers goes unnoticed.  A cold case starts a fresh race-enabled worker
// process, builds the environment (in memory; the operations under test are not
// run), and then lets N goroutines leave a barrier together, all running the
// same operation, or each a different one.  Expected results come from another
// fresh process that runs the operations one after the other.
//
//	!cold ENV N same OP:ARG        N goroutines, all running OP(ARG)
//	!cold ENV N mixed OP:ARG ...   goroutine i runs the i-th operation
//
// Oracle: every concurrent result equals the sequential result of the same
// call, the worker does not crash, the race detector reports nothing.

import (
	"bytes"
	"context"
	"encoding/json"
	"fmt"
	"os"
	"os/exec"
	"path/filepath"
	"strconv"
	"strings"
	"sync"
	"time"

	"seehuhn.de/go/sfnt/verifharness/vlib"
)

// coldEnvs: environments whose construction runs none of the operations under
// test (no Font.Write, no Subset, no encoder).
var coldEnvs = []string{"cff-gtab", "cff-cid", "cff-nonames", "glyf-gtab", "cff-big"}

type coldOp struct {
	Name string
	Arg  int
}

func (o coldOp) String() string { return fmt.Sprintf("%s:%d", o.Name, o.Arg) }

func parseColdOps(fs []string) ([]coldOp, error) {
	var out []coldOp
	for _, f := range fs {
		i := strings.LastIndexByte(f, ':')
		if i < 0 {
			return nil, fmt.Errorf("bad operation %q", f)
		}
		a, err := strconv.Atoi(f[i+1:])
		if err != nil || opIndex[f[:i]] == nil {
			return nil, fmt.Errorf("bad operation %q", f)
		}
		out = append(out, coldOp{f[:i], a})
	}
	return out, nil
}

type coldOut struct {
	Res []string `json:"res"`
	Err string   `json:"err,omitempty"`
}

// ColdMain is the worker side: racer -cold ENV N same|mixed|seq OUT OP:ARG...
func ColdMain(args []string) {
	out := coldOut{}
	fail := func(format string, a ...any) {
		out.Err = fmt.Sprintf(format, a...)
		b, _ := json.Marshal(out)
		os.WriteFile(args[3], b, 0o644)
		os.Exit(0)
	}
	if len(args) < 5 {
		fmt.Fprintln(os.Stderr, "usage: racer -cold ENV N same|mixed|seq OUT OP:ARG...")
		os.Exit(2)
	}
	n, err := strconv.Atoi(args[1])
	if err != nil || n < 1 {
		fail("bad thread count")
	}
	ops, err := parseColdOps(args[4:])
	if err != nil {
		fail("%v", err)
	}
	e, err := BuildEnv(args[0])
	if err != nil {
		fail("%v", err)
	}
	switch args[2] {
	case "seq":
		for _, o := range ops {
			out.Res = append(out.Res, Call(opIndex[o.Name], e, &ThreadCtx{}, o.Arg))
		}
	case "same", "mixed":
		if args[2] == "mixed" {
			n = len(ops)
		}
		out.Res = make([]string, n)
		start := make(chan struct{})
		var wg sync.WaitGroup
		for i := 0; i < n; i++ {
			o := ops[0]
			if args[2] == "mixed" {
				o = ops[i]
			}
			wg.Add(1)
			go func(i int, o coldOp) {
				defer wg.Done()
				tc := &ThreadCtx{ID: i}
				<-start
				out.Res[i] = Call(opIndex[o.Name], e, tc, o.Arg)
			}(i, o)
		}
		close(start)
		wg.Wait()
	default:
		fail("bad mode %q", args[2])
	}
	b, _ := json.Marshal(out)
	os.WriteFile(args[3], b, 0o644)
	os.Exit(0)
}

var coldSeq int64
var coldMu sync.Mutex

// runCold starts one worker process; it returns the results, the race
// detector's report (if any) and the crash text (if the process died).
func runCold(env string, n int, mode string, ops []coldOp) (res []string, race, crash string, err error) {
	racerMu.Lock()
	exe, err := ensureRacer()
	racerMu.Unlock()
	if err != nil {
		return nil, "", "", err
	}
	dir := filepath.Dir(exe)
	coldMu.Lock()
	coldSeq++
	id := fmt.Sprintf("%d_%d", os.Getpid(), coldSeq)
	coldMu.Unlock()
	outp := filepath.Join(dir, "cold_out"+id+".json")
	logBase := filepath.Join(dir, "racelog", "cold"+id)
	os.MkdirAll(filepath.Dir(logBase), 0o755)
	args := []string{"-cold", env, strconv.Itoa(n), mode, outp}
	for _, o := range ops {
		args = append(args, o.String())
	}
	ctx, cancel := context.WithTimeout(context.Background(), 5*time.Minute)
	defer cancel()
	cmd := exec.CommandContext(ctx, exe, args...)
	cmd.Env = append(goEnv(), "GORACE=log_path="+logBase+" halt_on_error=0 exitcode=0 history_size=7")
	var stderr bytes.Buffer
	cmd.Stderr, cmd.Stdout = &stderr, &stderr
	runErr := cmd.Run()
	racerMu.Lock()
	racerStats.Processes++
	racerMu.Unlock()
	defer os.Remove(outp)
	if logs, _ := filepath.Glob(logBase + ".*"); len(logs) > 0 {
		for _, l := range logs {
			b, _ := os.ReadFile(l)
			race += string(b)
			os.Remove(l)
		}
	}
	b, rerr := os.ReadFile(outp)
	if rerr != nil {
		if runErr != nil {
			tail := stderr.String()
			if len(tail) > 3000 {
				tail = tail[:3000]
			}
			return nil, race, tail, nil
		}
		return nil, race, "", fmt.Errorf("cold worker produced no result: %s", stderr.String())
	}
	var o coldOut
	if err := json.Unmarshal(b, &o); err != nil {
		return nil, race, "", err
	}
	if o.Err != "" {
		return nil, race, "", fmt.Errorf("cold worker: %s", o.Err)
	}
	return o.Res, race, "", nil
}

type coldCase struct {
	env  string
	n    int
	mode string
	ops  []coldOp
}

func (c coldCase) line() string {
	fs := []string{"!cold", c.env, strconv.Itoa(c.n), c.mode}
	for _, o := range c.ops {
		fs = append(fs, o.String())
	}
	return strings.Join(fs, " ")
}

// evalCold runs one cold case against the sequential results.
func evalCold(c coldCase, want map[string]string) (impl, fail, sig string) {
	res, race, crash, err := runCold(c.env, c.n, c.mode, c.ops)
	if err != nil {
		return "(harness-error)", "harness error: " + err.Error(), "harness-error"
	}
	if crash != "" {
		return "(crash)", "the fresh worker process died while " + c.mode + " operations ran concurrently for the first time: " + firstLines(crash, 30), "c16-cold-crash:" + crashKind(crash)
	}
	bad := 0
	first := ""
	for i, r := range res {
		o := c.ops[0]
		if c.mode == "mixed" {
			o = c.ops[i]
		}
		if r != want[o.String()] {
			bad++
			if first == "" {
				first = fmt.Sprintf("goroutine %d: %s returned %s, run alone it returns %s", i, o, clipStr(r, 80), clipStr(want[o.String()], 80))
			}
		}
	}
	impl = fmt.Sprintf("(%d %d)", len(res), bad)
	if bad > 0 {
		return impl, fmt.Sprintf("first concurrent use in a fresh process: %d of %d results differ from the sequential result; %s", bad, len(res), first), "c16-cold-result-differs"
	}
	if strings.Contains(race, "DATA RACE") {
		a, b := raceOps(race)
		return impl, fmt.Sprintf("first concurrent use in a fresh process: the race detector reports a data race (%s / %s): %s", a, b, firstLines(race, 40)), "c16-cold-race"
	}
	return impl, "", ""
}

func clipStr(s string, n int) string {
	if len(s) > n {
		return s[:n] + "..."
	}
	return s
}

// coldWant: the sequential results of the given operations in a fresh process.
func coldWant(env string, ops []coldOp) (map[string]string, error) {
	res, _, crash, err := runCold(env, 1, "seq", ops)
	if err != nil {
		return nil, err
	}
	if crash != "" || len(res) != len(ops) {
		return nil, fmt.Errorf("sequential cold run of %s failed: %s", env, firstLines(crash, 10))
	}
	want := map[string]string{}
	for i, o := range ops {
		want[o.String()] = res[i]
	}
	return want, nil
}

func genCold(run *vlib.Run, tier string) {
	const threads = 8
	type job struct {
		c    coldCase
		want map[string]string
	}
	var jobs []job
	for _, env := range coldEnvs {
		e, err := getEnv(env)
		if err != nil {
			continue
		}
		var ops []coldOp
		for _, o := range PropertyOps(e) {
			na := 1
			if tier == "thorough" {
				na = o.NArg
			}
			for a := 0; a < na && a < o.NArg; a++ {
				ops = append(ops, coldOp{o.Name, a})
			}
		}
		want, err := coldWant(env, ops)
		if err != nil {
			idx := run.Add("!cold "+env, "(harness-error)", true, "harness-error")
			run.Fail(idx, "!cold "+env, err.Error(), "harness-error")
			continue
		}
		for _, o := range ops {
			jobs = append(jobs, job{coldCase{env, threads, "same", []coldOp{o}}, want})
		}
		jobs = append(jobs, job{coldCase{env, len(ops), "mixed", ops}, want})
	}
	type outT struct{ impl, fail, sig string }
	outs := make([]outT, len(jobs))
	sem := make(chan struct{}, 6)
	var wg sync.WaitGroup
	for i := range jobs {
		wg.Add(1)
		sem <- struct{}{}
		go func(i int) {
			defer wg.Done()
			defer func() { <-sem }()
			outs[i].impl, outs[i].fail, outs[i].sig = evalCold(jobs[i].c, jobs[i].want)
		}(i)
	}
	wg.Wait()
	for i, j := range jobs {
		line := j.c.line()
		idx := run.Add(line, outs[i].impl, true, "cold", "cold:"+j.c.mode, "oracle-only", "env:"+j.c.env)
		if outs[i].fail != "" {
			run.Fail(idx, line, outs[i].fail, outs[i].sig)
		}
	}
}

// runColdLine replays one cold case line.
func runColdLine(line string) (impl, fail, sig string, err error) {
	fs := strings.Fields(strings.TrimPrefix(line, "!"))
	if len(fs) < 5 || fs[0] != "cold" {
		return "", "", "", fmt.Errorf("bad cold case line")
	}
	n, err := strconv.Atoi(fs[2])
	if err != nil {
		return "", "", "", err
	}
	ops, err := parseColdOps(fs[4:])
	if err != nil {
		return "", "", "", err
	}
	want, err := coldWant(fs[1], ops)
	if err != nil {
		return "(harness-error)", err.Error(), "harness-error", nil
	}
	impl, fail, sig = evalCold(coldCase{fs[1], n, fs[3], ops}, want)
	return impl, fail, sig, nil
}
