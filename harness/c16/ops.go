// Package c16 checks that an unmodified *sfnt.Font is safe for concurrent use.
//
// ops.go: the shared environments (fonts of both outline kinds, shared lookup
// lists) and the read-only operations of the property's list, each returning a
// canonical result string.  The same file is compiled into the ordinary
// harness binary (vh-C16) and into the race-enabled worker (c16/racer).
package c16

import (
	"bytes"
	"fmt"
	"reflect"
	"sort"
	"strings"
	"time"

	"golang.org/x/image/font/gofont/gobolditalic"
	"golang.org/x/image/font/gofont/gomono"
	"golang.org/x/image/font/gofont/goregular"
	"golang.org/x/text/language"

	"seehuhn.de/go/geom/matrix"
	"seehuhn.de/go/postscript/cid"
	"seehuhn.de/go/postscript/funit"
	"seehuhn.de/go/postscript/type1"

	"seehuhn.de/go/sfnt"
	"seehuhn.de/go/sfnt/cff"
	"seehuhn.de/go/sfnt/cmap"
	"seehuhn.de/go/sfnt/glyf"
	"seehuhn.de/go/sfnt/glyph"
	"seehuhn.de/go/sfnt/internal/debug"
	"seehuhn.de/go/sfnt/opentype/classdef"
	"seehuhn.de/go/sfnt/opentype/coverage"
	"seehuhn.de/go/sfnt/opentype/gdef"
	"seehuhn.de/go/sfnt/opentype/gtab"
	"seehuhn.de/go/sfnt/opentype/gtab/builder"
	"seehuhn.de/go/sfnt/opentype/gtab/testcases"
)

// ---------------------------------------------------------------- environments

type lookupCase struct {
	Name    string
	List    gtab.LookupList
	Lookups []gtab.LookupIndex
	In      string
}

// Env is everything the goroutines of one case share: the font, shared
// lookup lists with their inputs, and (for one control only) a Layouter.
type Env struct {
	Name  string
	Kind  string // "cff" or "glyf"
	Font  *sfnt.Font
	Lists []*lookupCase
	Texts []string

	SharedLayouter *sfnt.Layouter // control "LayoutShared" only (outside the property)

	orig    map[string]reflect.Value // pristine values of the mutable fields (sequential controls)
	altGpos *gtab.Info               // second alternative value of the field Gpos

	arena *arena // non-nil: the shared state lies in read-only memory (freeze.go)

	pristine   []CellVal           // cached deep hashes of the unmodified state (exec.go)
	aloneCache map[string][]string // cached alone results of control-free threads
}

var fixedTime = time.Date(2024, 5, 17, 12, 0, 0, 0, time.UTC)

var EnvNames = []string{"cff", "cff-gtab", "cff-sub", "cff-cid", "cff-nonames", "glyf", "glyf-gtab", "glyf-sub", "glyf-mono", "glyf-bi", "glyf-nonames",
	// written by Font.Write and read back by sfnt.Read: everything the readers
	// build (FDSelect closures, decoded tables) is in play
	"rt-cid3", "rt-cid0", "rt-cff", "rt-glyf",
	// a GSUB lookup list of more than 64 KiB: Font.Write has to reorder the
	// lookups and reach some subtables through extension records
	"cff-big"}

const richGsub = `GSUB5: "AA" -> 1@0 2@1 || "BC" -> 3@0
	GSUB1: "A" -> "B", "C" -> "D"
	GSUB1: "A" -> "X", "B" -> "Y"
	GSUB4: "BC" -> "Q", "BCD" -> "R"
	GSUB4: -marks "FI" -> "K", "FL" -> "L"
	GSUB2: "Z" -> "AB"
	GSUB3: "G" -> ["H" "I"]
	GSUB6: A | B | C -> 1@0`

const richGpos = `GPOS1: [A D] -> y+50 || B -> x+10 y-20 dx+30, E -> y+30
	GPOS2: A V -> dx-200, T O -> dx-100 & x+5
	GPOS4:
		mark M: 0@400,0
		base A: @400,1000`

const subGsub = `GSUB1: "A" -> "B", "C" -> "D"
	GSUB4: "FI" -> "K", "FL" -> "L"`

const subGpos = `GPOS2: A V -> dx-200, T O -> dx-100`

func gtabInfo(ll gtab.LookupList, tag string, top []gtab.LookupIndex) *gtab.Info {
	return &gtab.Info{
		// feature 0 is the required feature; besides the main optional feature
		// (all lookups) there are two small optional features, so that the lookups
		// of the selected optional features fit into whatever spare capacity the
		// reader leaves behind the required feature's list (fonts that went through
		// Write/Read have append-grown slices with cap > len)
		ScriptList: map[language.Tag]*gtab.Features{
			language.MustParse("und-Zzzz"): {Required: 0, Optional: []gtab.FeatureIndex{1, 2, 3}},
		},
		FeatureList: []*gtab.Feature{
			{Tag: "test", Lookups: top[:(len(top)+1)/2+(len(top)+1)%2]},
			{Tag: tag, Lookups: top},
			{Tag: "ss01", Lookups: top[len(top)-1:]},
			{Tag: "ss02", Lookups: top[:1]},
		},
		LookupList: ll,
	}
}

// bigLookupList: a few multiple-substitution lookups with long replacement
// sequences (few objects, many bytes: the deep hash of the environment stays
// cheap) adding up to a little more than 64 KiB.
func bigLookupList(f *sfnt.Font) gtab.LookupList {
	n := f.NumGlyphs()
	const seqLen = 64
	per := (n - 1) * (4 + 2*seqLen)
	var ll gtab.LookupList
	for k := 0; k*per < 80000; k++ {
		cov := coverage.Table{}
		repl := make([][]glyph.ID, 0, n-1)
		for g := 1; g < n; g++ {
			cov[glyph.ID(g)] = g - 1
			seq := make([]glyph.ID, seqLen)
			for i := range seq {
				seq[i] = glyph.ID(1 + (g+k+i)%(n-1))
			}
			repl = append(repl, seq)
		}
		ll = append(ll, &gtab.LookupTable{
			Meta:      &gtab.LookupMetaInfo{LookupType: 2},
			Subtables: []gtab.Subtable{&gtab.Gsub2_1{Cov: cov, Repl: repl}},
		})
	}
	return ll
}

func mustParse(f *sfnt.Font, desc string) gtab.LookupList {
	ll, err := builder.Parse(f, desc)
	if err != nil {
		panic(fmt.Sprintf("builder.Parse(%q): %v", desc, err))
	}
	return ll
}

func testGdef(f *sfnt.Font) *gdef.Table {
	cm, err := f.CMapTable.GetBest()
	if err != nil {
		panic(err)
	}
	return &gdef.Table{
		GlyphClass: classdef.Table{
			cm.Lookup('B'): gdef.GlyphClassBase,
			cm.Lookup('K'): gdef.GlyphClassLigature,
			cm.Lookup('L'): gdef.GlyphClassLigature,
			cm.Lookup('M'): gdef.GlyphClassMark,
			cm.Lookup('N'): gdef.GlyphClassMark,
		},
	}
}

func readTTF(data []byte) *sfnt.Font {
	f, err := sfnt.Read(bytes.NewReader(data))
	if err != nil {
		panic(err)
	}
	return f
}

// BuildEnv constructs the named environment from scratch; the result is the
// same on every call (fixed time stamps, no randomness).
func BuildEnv(name string) (e *Env, err error) {
	defer func() {
		if r := recover(); r != nil {
			e, err = nil, fmt.Errorf("building env %s: %v", name, r)
		}
	}()
	var f *sfnt.Font
	var richGsubTexts, richGposTexts []string
	kind := "cff"
	switch {
	case strings.HasPrefix(name, "cff"):
		f = debug.MakeSimpleFont()
	case name == "glyf-mono":
		f, kind = readTTF(gomono.TTF), "glyf"
	case name == "glyf-bi":
		f, kind = readTTF(gobolditalic.TTF), "glyf"
	case strings.HasPrefix(name, "glyf"):
		f, kind = readTTF(goregular.TTF), "glyf"
	case name == "rt-cid3" || name == "rt-cid0":
		f = roundTrip(makeCIDFont(name == "rt-cid3"))
		checkCIDEnv(f, name == "rt-cid3")
	case name == "rt-cff":
		g := debug.MakeSimpleFont()
		g.CreationTime, g.ModificationTime = fixedTime, fixedTime
		f = roundTrip(g)
	case name == "rt-glyf":
		f, kind = roundTrip(readTTF(goregular.TTF)), "glyf"
	case name == "rt-ctx" || name == "rt-all":
		// richenv.go: all subtable kinds, through the writer and the reader
		g := debug.MakeSimpleFont()
		g.CreationTime, g.ModificationTime = fixedTime, fixedTime
		richGsubTexts, richGposTexts = installRich(g, name == "rt-all")
		f = roundTrip(g)
		if f.Gsub == nil || f.Gpos == nil || f.Gdef == nil ||
			len(f.Gsub.LookupList) != len(g.Gsub.LookupList) || len(f.Gpos.LookupList) != len(g.Gpos.LookupList) {
			panic("rich environment: layout tables lost in the round trip")
		}
	default:
		return nil, fmt.Errorf("unknown env %q", name)
	}
	f.CreationTime = fixedTime
	f.ModificationTime = fixedTime
	e = &Env{Name: name, Kind: kind, Font: f}

	switch name {
	case "cff-ctx", "glyf-ctx":
		richGsubTexts, richGposTexts = installRich(f, false)
	case "cff-all":
		richGsubTexts, richGposTexts = installRich(f, true)
	case "cff-gtab", "glyf-gtab":
		f.Gdef = testGdef(f)
		f.Gsub = gtabInfo(mustParse(f, richGsub), "liga", []gtab.LookupIndex{0, 4, 5, 6, 7})
		f.Gpos = gtabInfo(mustParse(f, richGpos), "kern", []gtab.LookupIndex{0, 1, 2})
	case "cff-big":
		// lookup 0 is the only one a feature refers to: the big ones are
		// written and read but never applied (their replacement sequences
		// would blow a text up)
		f.Gsub = gtabInfo(append(mustParse(f, `GSUB1: "A" -> "B", "C" -> "D"`), bigLookupList(f)...), "liga", []gtab.LookupIndex{0})
		f.Gpos = gtabInfo(mustParse(f, subGpos), "kern", []gtab.LookupIndex{0})
	case "cff-sub", "glyf-sub":
		f.Gsub = gtabInfo(mustParse(f, subGsub), "liga", []gtab.LookupIndex{0, 1})
		f.Gpos = gtabInfo(mustParse(f, subGpos), "kern", []gtab.LookupIndex{0})
	case "cff-nonames", "glyf-nonames":
		// glyph names missing: MakeGlyphNames has to infer them from the cmap
		// and GSUB tables (names.FromUnicode, makeVariant)
		f.Gsub = gtabInfo(mustParse(f, subGsub), "liga", []gtab.LookupIndex{0, 1})
		switch o := f.Outlines.(type) {
		case *cff.Outlines:
			for i, g := range o.Glyphs {
				if i > 0 && i%3 != 0 {
					g.Name = ""
				}
			}
		case *glyf.Outlines:
			o.Names = nil
		}
	case "cff-cid":
		o := f.Outlines.(*cff.Outlines)
		n := len(o.Glyphs)
		o.ROS = &cid.SystemInfo{Registry: "Adobe", Ordering: "Identity", Supplement: 0}
		o.GIDToCID = make([]cid.CID, n)
		for i := range o.GIDToCID {
			o.GIDToCID[i] = cid.CID(2 * i)
		}
		o.Encoding = nil
		o.Private = append(o.Private, o.Private[0])
		o.FontMatrices = []matrix.Matrix{matrix.Identity, {1, 0, 0.2, 1, 0, 0}}
		half := n / 2
		o.FDSelect = func(gid glyph.ID) int {
			if int(gid) < half {
				return 0
			}
			return 1
		}
	}

	// shared lookup lists: the GSUB test cases of the repository, parsed
	// against this font, applied later through gtab.NewContext + Apply
	if strings.HasSuffix(name, "-gtab") {
		step := 1
		for i := 0; i < len(testcases.Gsub); i += step {
			tc := testcases.Gsub[i]
			ll, perr := builder.Parse(f, tc.Desc)
			if perr != nil {
				continue
			}
			info := gtabInfo(ll, "liga", []gtab.LookupIndex{0})
			e.Lists = append(e.Lists, &lookupCase{
				Name:    tc.Name,
				List:    ll,
				Lookups: info.FindLookups(language.AmericanEnglish, nil),
				In:      tc.In,
			})
		}
	}
	e.Texts = []string{"ABC", "AABCDFIFLZGAVTOAM", "THE QUICK BROWN FOX", "AM AV >=< BCD", ""}
	if isRichEnv(name) {
		e.Texts = []string{"THE QUICK BROWN FOX"}
		richLists(e, richGsubTexts, richGposTexts)
	}
	if f.Gsub != nil || f.Gpos != nil {
		l, lerr := f.NewLayouter(language.AmericanEnglish, nil, nil)
		if lerr == nil {
			e.SharedLayouter = l
		}
	}
	if f.Gpos != nil {
		e.altGpos = gtabInfo(mustParse(f, "GPOS2: A V -> dx-150, T O -> dx-50 & x+9, A M -> dx-20"), "kern", []gtab.LookupIndex{0})
	}
	e.orig = map[string]reflect.Value{}
	fv := reflect.ValueOf(f).Elem()
	for _, m := range mutFields {
		c := reflect.New(fv.FieldByName(m).Type()).Elem()
		c.Set(fv.FieldByName(m))
		e.orig[m] = c
	}
	return e, nil
}

// ---- fonts that went through the writer and the reader

const (
	cidGlyphs = 96
	cidFDs    = 4
)

// cidFD assigns glyphs to private dictionaries: in runs of 6 glyphs (16
// ranges over 4 dictionaries: the writer stores FDSelect in format 3) or
// glyph by glyph (the writer picks format 0).
func cidFD(gid int, runs bool) int {
	if runs {
		return (gid / 6) % cidFDs
	}
	return gid % cidFDs
}

func makeCIDFont(runs bool) *sfnt.Font {
	o := &cff.Outlines{}
	for i := 0; i < cidGlyphs; i++ {
		w := 300 + 5*float64(i)
		g := cff.NewGlyph("", w)
		g.MoveTo(0, 0)
		g.LineTo(w, 0)
		g.LineTo(w, 400+float64(i))
		g.LineTo(float64(i), 500)
		o.Glyphs = append(o.Glyphs, g)
		o.GIDToCID = append(o.GIDToCID, cid.CID(i))
	}
	for fd := 0; fd < cidFDs; fd++ {
		o.Private = append(o.Private, &type1.PrivateDict{
			BlueValues: []funit.Int16{-10, 0, 500, 510},
			BlueScale:  0.039625,
			BlueShift:  7,
			BlueFuzz:   1,
			StdHW:      float64(10*fd + 20),
		})
		// a different scale per dictionary: PDF widths and boxes depend on
		// the dictionary FDSelect returns
		o.FontMatrices = append(o.FontMatrices, matrix.Scale(float64(fd+1), float64(fd+1)))
	}
	o.FDSelect = func(gid glyph.ID) int { return cidFD(int(gid), runs) }
	o.ROS = &cid.SystemInfo{Registry: "Adobe", Ordering: "Identity", Supplement: 0}

	cm := cmap.Format4{}
	for i := 1; i < cidGlyphs; i++ {
		cm[uint16(0x20+i)] = glyph.ID(i)
	}
	f := &sfnt.Font{
		FamilyName:       "VerifCID",
		UnitsPerEm:       1000,
		FontMatrix:       matrix.Matrix{0.001, 0, 0, 0.001, 0, 0},
		Ascent:           500,
		Descent:          -100,
		Outlines:         o,
		CreationTime:     fixedTime,
		ModificationTime: fixedTime,
	}
	f.InstallCMap(cm)
	return f
}

func roundTrip(f *sfnt.Font) *sfnt.Font {
	buf := &bytes.Buffer{}
	if _, err := f.Write(buf); err != nil {
		panic(fmt.Sprintf("round trip: Write: %v", err))
	}
	g, err := sfnt.Read(bytes.NewReader(buf.Bytes()))
	if err != nil {
		panic(fmt.Sprintf("round trip: Read: %v", err))
	}
	return g
}

// checkCIDEnv makes sure the font read back has the structure the
// environment is meant to have.
func checkCIDEnv(f *sfnt.Font, runs bool) {
	o, ok := f.Outlines.(*cff.Outlines)
	if !ok || !o.IsCIDKeyed() || len(o.Private) != cidFDs || len(o.Glyphs) != cidGlyphs {
		panic("CID environment: unexpected structure after reading back")
	}
	changes := 0
	for g := 0; g < cidGlyphs; g++ {
		if o.FDSelect(glyph.ID(g)) != cidFD(g, runs) {
			panic("CID environment: FDSelect differs after reading back")
		}
		if g > 0 && cidFD(g, runs) != cidFD(g-1, runs) {
			changes++
		}
	}
	if runs && changes != cidGlyphs/6-1 {
		panic("CID environment: unexpected number of FDSelect ranges")
	}
}

// ---------------------------------------------------------------- cells

// A cell is one field of sfnt.Font (field granularity), plus the cells below.
const (
	CellLists    = 60   // the shared lookup lists of the environment
	CellFDSelect = 61   // values of the FDSelect function (a func value is opaque to the walk)
	CellShLay    = 62   // the shared Layouter of the control
	CellPrivBase = 1000 // private cell k of thread t: CellPrivBase*(t+1)+k
)

type CellVal struct {
	Cell int
	Val  uint32
}

func fontFieldNames() []string {
	t := reflect.TypeOf(sfnt.Font{})
	names := make([]string, t.NumField())
	for i := range names {
		names[i] = t.Field(i).Name
	}
	return names
}

func fieldCell(name string) int {
	t := reflect.TypeOf(sfnt.Font{})
	sf, ok := t.FieldByName(name)
	if !ok {
		panic("no field " + name)
	}
	return sf.Index[0]
}

// Cells returns the deep hash of every shared cell, sorted by cell id.
func (e *Env) Cells() []CellVal {
	fv := reflect.ValueOf(e.Font).Elem()
	out := make([]CellVal, 0, fv.NumField()+3)
	for i := 0; i < fv.NumField(); i++ {
		hs := newHasher()
		hs.walk(fv.Field(i))
		out = append(out, CellVal{i, hash32(hs.sum())})
	}
	hs := newHasher()
	hs.walk(reflect.ValueOf(&e.Lists))
	out = append(out, CellVal{CellLists, hash32(hs.sum())})
	hs = newHasher()
	if o, ok := e.Font.Outlines.(*cff.Outlines); ok && o.FDSelect != nil {
		for gid := range o.Glyphs {
			hs.u64(uint64(o.FDSelect(glyph.ID(gid))))
		}
	}
	out = append(out, CellVal{CellFDSelect, hash32(hs.sum())})
	hs = newHasher()
	hs.walk(reflect.ValueOf(&e.SharedLayouter))
	out = append(out, CellVal{CellShLay, hash32(hs.sum())})
	return out
}

func cellName(c int) string {
	names := fontFieldNames()
	switch {
	case c < len(names):
		return "Font." + names[c]
	case c == CellLists:
		return "shared-lookup-lists"
	case c == CellFDSelect:
		return "FDSelect-values"
	case c == CellShLay:
		return "shared-layouter"
	}
	return fmt.Sprintf("cell%d", c)
}

func diffCells(a, b []CellVal) []CellVal {
	var out []CellVal
	for i := range a {
		if i < len(b) && a[i] != b[i] {
			out = append(out, b[i])
		}
	}
	return out
}

// ---------------------------------------------------------------- operations

// ThreadCtx is memory owned by one goroutine (the model's per-thread cells).
type ThreadCtx struct {
	ID       int
	Layouter *sfnt.Layouter
}

type OpFn func(e *Env, tc *ThreadCtx, arg int) string

type OpSpec struct {
	Name    string
	Fn      OpFn
	Kind    string // "", "cff", "glyf": outline kind the operation needs
	Gtab    bool   // needs GSUB/GPOS
	NArg    int    // arguments 0..NArg-1 are meaningful
	Priv    bool   // reads and writes the thread's private cell 0 (its own Layouter)
	Control string // "" for operations of the property; otherwise the kind of control
	Field   string // mutators: the field set
}

func fbits(x float64) string { return fmt.Sprintf("%016x", mathFloat64bits(x)) }

func dumpFloats(xs []float64) string {
	var b strings.Builder
	for _, x := range xs {
		b.WriteString(fbits(x))
		b.WriteByte(' ')
	}
	return b.String()
}

func dumpSeq(seq []glyph.Info) string {
	var b strings.Builder
	for _, g := range seq {
		fmt.Fprintf(&b, "%d %q %d %d %d|", g.GID, string(g.Text), g.XOffset, g.YOffset, g.Advance)
	}
	return b.String()
}

func hashOf(p any) string {
	h := DeepHash(p)
	return fmt.Sprintf("%x", h[:16])
}

func subsetGlyphs(e *Env, arg int) []glyph.ID {
	n := e.Font.NumGlyphs()
	cm, _ := e.Font.CMapTable.GetBest()
	if e.Kind == "cff" && e.Font.Gsub == nil && arg%6 >= 4 {
		// lists that jump between distant parts of the glyph set (for the
		// CID-keyed fonts: between FDSelect ranges), in non-monotone order
		k := arg % 6
		gg := []glyph.ID{0}
		seen := map[int]bool{0: true}
		for i := 1; i < 14; i++ {
			g := 1 + (i*(29+6*k)+11*k)%(n-1)
			if !seen[g] {
				seen[g] = true
				gg = append(gg, glyph.ID(g))
			}
		}
		return gg
	}
	var text string
	if arg == 6 {
		// complete ligature rules (first glyph, all components, the ligature
		// glyph) of the environments' GSUB 4.1 lookups, in an order that gives
		// every glyph a new id different from its old one
		text = "LKZQIFCBRA"
	}
	switch {
	case arg == 6:
	case arg%4 == 0:
		text = "ABCFIL"
	case arg%4 == 1:
		text = "AVTO"
	case arg%4 == 2:
		text = "HELLOWORLD"
	default:
		// a stride through the glyph set (reaches composite glyphs in the TrueType fonts)
		gg := []glyph.ID{0}
		for g := 3; g < n; g += 37 {
			gg = append(gg, glyph.ID(g))
		}
		return gg
	}
	gg := []glyph.ID{0}
	seen := map[glyph.ID]bool{0: true}
	for _, r := range text {
		if cm == nil {
			break
		}
		g := cm.Lookup(r)
		if !seen[g] && int(g) < n {
			seen[g] = true
			gg = append(gg, g)
		}
	}
	return gg
}

func Op_Write(e *Env, tc *ThreadCtx, arg int) string {
	var buf bytes.Buffer
	n, err := e.Font.Write(&buf)
	return fmt.Sprintf("%d %v %x", n, err != nil, strHash(buf.String()))
}

func Op_WritePDF(e *Env, tc *ThreadCtx, arg int) string {
	var buf bytes.Buffer
	if e.Kind == "glyf" {
		var n int64
		var err error
		if arg%2 == 1 {
			n, err = e.Font.WriteTrueTypePDF(&buf, "cvt ", []byte{0, 1, 2, 3})
		} else {
			n, err = e.Font.WriteTrueTypePDF(&buf)
		}
		return fmt.Sprintf("%d %v %x", n, err != nil, strHash(buf.String()))
	}
	err := e.Font.WriteOpenTypeCFFPDF(&buf)
	return fmt.Sprintf("%v %x", err != nil, strHash(buf.String()))
}

func Op_Subset(e *Env, tc *ThreadCtx, arg int) string {
	sub := e.Font.Subset(subsetGlyphs(e, arg))
	return hashOf(sub) + fmt.Sprint(sub.NumGlyphs())
}

func Op_SubsetWrite(e *Env, tc *ThreadCtx, arg int) string {
	sub := e.Font.Subset(subsetGlyphs(e, arg))
	var buf bytes.Buffer
	n, err := sub.Write(&buf)
	return fmt.Sprintf("%d %v %x", n, err != nil, strHash(buf.String()))
}

func Op_Clone(e *Env, tc *ThreadCtx, arg int) string {
	c := e.Font.Clone()
	return hashOf(c)
}

// Op_CloneModify writes only to memory the goroutine allocated itself (the
// top-level struct of its clone) and then serialises the clone, which still
// shares outlines, cmap and layout tables with the original.
func Op_CloneModify(e *Env, tc *ThreadCtx, arg int) string {
	c := e.Font.Clone()
	c.FamilyName = fmt.Sprintf("Clone%d", arg)
	c.Version += 7
	c.IsBold = !c.IsBold
	c.Ascent += funit.Int16(arg)
	var buf bytes.Buffer
	n, err := c.Write(&buf)
	return fmt.Sprintf("%d %v %x", n, err != nil, strHash(buf.String()))
}

func Op_FontBBox(e *Env, tc *ThreadCtx, arg int) string {
	b := e.Font.FontBBox()
	p := e.Font.FontBBoxPDF()
	return fmt.Sprintf("%d %d %d %d %s %s %s %s", b.LLx, b.LLy, b.URx, b.URy, fbits(p.LLx), fbits(p.LLy), fbits(p.URx), fbits(p.URy))
}

func Op_Widths(e *Env, tc *ThreadCtx, arg int) string {
	f := e.Font
	var b strings.Builder
	b.WriteString(dumpFloats(f.Widths()))
	b.WriteString("/")
	b.WriteString(dumpFloats(f.WidthsPDF()))
	b.WriteString("/")
	m := f.WidthsMapPDF()
	keys := make([]string, 0, len(m))
	for k := range m {
		keys = append(keys, k)
	}
	sort.Strings(keys)
	for _, k := range keys {
		b.WriteString(k + "=" + fbits(m[k]) + " ")
	}
	b.WriteString("/")
	for g := 0; g < f.NumGlyphs(); g++ {
		b.WriteString(fbits(f.GlyphWidth(glyph.ID(g))) + fbits(f.GlyphWidthPDF(glyph.ID(g))) + " ")
	}
	fmt.Fprintf(&b, "/%v", f.IsFixedPitch())
	return fmt.Sprintf("%x", strHash(b.String()))
}

func Op_GlyphBBox(e *Env, tc *ThreadCtx, arg int) string {
	f := e.Font
	var b strings.Builder
	for g := 0; g < f.NumGlyphs(); g++ {
		r := f.GlyphBBox(glyph.ID(g))
		fmt.Fprintf(&b, "%d %d %d %d|", r.LLx, r.LLy, r.URx, r.URy)
	}
	b.WriteString("/")
	for _, r := range f.GlyphBBoxes() {
		fmt.Fprintf(&b, "%d %d %d %d|", r.LLx, r.LLy, r.URx, r.URy)
	}
	b.WriteString("/")
	for g := 0; g < f.NumGlyphs(); g++ {
		r := f.Outlines.GlyphBBoxPDF(f.FontMatrix, glyph.ID(g))
		b.WriteString(fbits(r.LLx) + fbits(r.LLy) + fbits(r.URx) + fbits(r.URy) + "|")
	}
	return fmt.Sprintf("%x", strHash(b.String()))
}

// Op_FDSweep asks for PDF widths and boxes of many glyphs in an order that
// depends on arg (descending, strided, zig-zag): for CID-keyed fonts every
// call goes through Outlines.FDSelect with glyphs from different ranges.
func Op_FDSweep(e *Env, tc *ThreadCtx, arg int) string {
	f := e.Font
	n := f.NumGlyphs()
	var b strings.Builder
	for i := 0; i < n && i < 400; i++ {
		var g int
		switch arg % 4 {
		case 0:
			g = n - 1 - i
		case 1:
			g = (i * 7) % n
		case 2:
			g = (i * 31) % n
		default:
			if i%2 == 0 {
				g = i / 2
			} else {
				g = n - 1 - i/2
			}
		}
		r := f.Outlines.GlyphBBoxPDF(f.FontMatrix, glyph.ID(g))
		b.WriteString(fbits(f.GlyphWidthPDF(glyph.ID(g))) + fbits(r.LLx) + fbits(r.URx) + fbits(r.URy) + "|")
	}
	p := f.FontBBoxPDF()
	b.WriteString(fbits(p.LLx) + fbits(p.LLy) + fbits(p.URx) + fbits(p.URy))
	return fmt.Sprintf("%x", strHash(b.String()))
}

func Op_MakeGlyphNames(e *Env, tc *ThreadCtx, arg int) string {
	nn := e.Font.MakeGlyphNames()
	var b strings.Builder
	for g := 0; g < e.Font.NumGlyphs(); g++ {
		b.WriteString(e.Font.GlyphName(glyph.ID(g)) + ",")
	}
	return fmt.Sprintf("%x", strHash(strings.Join(nn, ",")+"/"+b.String()+"/"+strings.Join(e.Font.BuiltinEncoding(), ",")))
}

func Op_GetFontInfo(e *Env, tc *ThreadCtx, arg int) string {
	f := e.Font
	fi := f.GetFontInfo()
	return hashOf(fi) + "|" + f.FullName() + "|" + f.Subfamily() + "|" + f.PostScriptName() +
		fmt.Sprintf("|%v %v %d", f.IsGlyf(), f.IsCFF(), f.NumGlyphs())
}

func Op_AsCFFWrite(e *Env, tc *ThreadCtx, arg int) string {
	var buf bytes.Buffer
	err := e.Font.AsCFF().Write(&buf)
	return fmt.Sprintf("%v %x", err != nil, strHash(buf.String()))
}

var layoutLangs = []language.Tag{language.AmericanEnglish, language.German, language.Und}

// Op_Layout: a new Layouter per call, all texts.
func Op_Layout(e *Env, tc *ThreadCtx, arg int) string {
	var gs, gp map[string]bool
	switch arg % 4 {
	case 1:
		gs = map[string]bool{"liga": true}
		gp = map[string]bool{}
	case 2: // one small optional feature next to the required one
		gs = map[string]bool{"ss01": true}
		gp = map[string]bool{"ss02": true}
	case 3:
		gs = map[string]bool{"ss02": true, "liga": false}
		gp = map[string]bool{"ss01": true, "kern": false}
	}
	l, err := e.Font.NewLayouter(layoutLangs[arg%len(layoutLangs)], gs, gp)
	if err != nil {
		return "err"
	}
	var b strings.Builder
	for _, t := range e.Texts {
		b.WriteString(dumpSeq(l.Layout(t)))
		b.WriteString("/")
	}
	return fmt.Sprintf("%x", strHash(b.String()))
}

// Op_LayoutOwn: the goroutine's own Layouter, kept across its operations.
func Op_LayoutOwn(e *Env, tc *ThreadCtx, arg int) string {
	if tc.Layouter == nil {
		l, err := e.Font.NewLayouter(language.AmericanEnglish, nil, nil)
		if err != nil {
			return "err"
		}
		tc.Layouter = l
	}
	t := e.Texts[arg%len(e.Texts)]
	return dumpSeq(tc.Layouter.Layout(t))
}

// Op_LayoutShared is a control outside the property: one Layouter used by
// several goroutines.  The race detector must report it.
func Op_LayoutShared(e *Env, tc *ThreadCtx, arg int) string {
	if e.SharedLayouter == nil {
		return "none"
	}
	t := e.Texts[1]
	return dumpSeq(e.SharedLayouter.Layout(t))
}

func textSeq(f *sfnt.Font, in string) []glyph.Info {
	cm, _ := f.CMapTable.GetBest()
	seq := make([]glyph.Info, 0, len(in))
	for _, r := range in {
		var g glyph.ID
		if cm != nil {
			g = cm.Lookup(r)
		}
		seq = append(seq, glyph.Info{GID: g, Text: []rune{r}})
	}
	return seq
}

// Op_ApplyGsub: gtab.NewContext + Apply with the font's own GSUB lookup list
// and GDEF table.
func Op_ApplyGsub(e *Env, tc *ThreadCtx, arg int) string {
	f := e.Font
	if f.Gsub == nil {
		return "none"
	}
	lookups := f.Gsub.FindLookups(language.AmericanEnglish, gtab.GsubDefaultFeatures)
	ctx := gtab.NewContext(f.Gsub.LookupList, f.Gdef, lookups)
	var b strings.Builder
	for _, t := range e.Texts {
		b.WriteString(dumpSeq(ctx.Apply(textSeq(f, t))))
		b.WriteString("/")
	}
	return b.String()
}

func Op_ApplyGpos(e *Env, tc *ThreadCtx, arg int) string {
	f := e.Font
	if f.Gpos == nil {
		return "none"
	}
	lookups := f.Gpos.FindLookups(language.AmericanEnglish, gtab.GposDefaultFeatures)
	ctx := gtab.NewContext(f.Gpos.LookupList, f.Gdef, lookups)
	var b strings.Builder
	for _, t := range e.Texts {
		seq := textSeq(f, t)
		for i := range seq {
			seq[i].Advance = funit.Int16(f.GlyphWidth(seq[i].GID))
		}
		b.WriteString(dumpSeq(ctx.Apply(seq)))
		b.WriteString("/")
	}
	return b.String()
}

// Op_ApplyLists: gtab.NewContext + Apply on the environment's shared lookup
// lists (a window of them chosen by arg).
func Op_ApplyLists(e *Env, tc *ThreadCtx, arg int) string {
	if len(e.Lists) == 0 {
		return "none"
	}
	var b strings.Builder
	n := len(e.Lists)
	start := (arg * 29) % n
	for k := 0; k < 40 && k < n; k++ {
		lc := e.Lists[(start+k)%n]
		ctx := gtab.NewContext(lc.List, e.Font.Gdef, lc.Lookups)
		b.WriteString(dumpSeq(ctx.Apply(textSeq(e.Font, lc.In))))
		b.WriteString("/")
	}
	return fmt.Sprintf("%x", strHash(b.String()))
}

func Op_ExplainGsub(e *Env, tc *ThreadCtx, arg int) string {
	return builder.ExplainGsub(e.Font)
}

func Op_ExplainGpos(e *Env, tc *ThreadCtx, arg int) string {
	return strings.Join(builder.ExplainGpos(e.Font), "\n")
}

func Op_EncodeGtab(e *Env, tc *ThreadCtx, arg int) string {
	f := e.Font
	var b bytes.Buffer
	if f.Gdef != nil {
		b.Write(f.Gdef.Encode())
	}
	b.WriteByte('/')
	if f.Gsub != nil {
		b.Write(f.Gsub.Encode())
	}
	b.WriteByte('/')
	if f.Gpos != nil {
		b.Write(f.Gpos.Encode())
	}
	b.WriteByte('/')
	if f.CMapTable != nil {
		b.Write(f.CMapTable.Encode())
	}
	return fmt.Sprintf("%x", strHash(b.String()))
}

func Op_CMapLookup(e *Env, tc *ThreadCtx, arg int) string {
	cm, err := e.Font.CMapTable.GetBest()
	if err != nil || cm == nil {
		return "err"
	}
	lo, hi := cm.CodeRange()
	var b strings.Builder
	fmt.Fprintf(&b, "%d %d:", lo, hi)
	if hi > lo+3000 {
		hi = lo + 3000
	}
	for r := lo; r <= hi; r++ {
		fmt.Fprintf(&b, "%d,", cm.Lookup(r))
	}
	return fmt.Sprintf("%x", strHash(b.String()))
}

func Op_GlyfEncode(e *Env, tc *ThreadCtx, arg int) string {
	o := e.Font.Outlines.(*glyf.Outlines)
	enc := o.Glyphs.Encode()
	var b strings.Builder
	for i, g := range o.Glyphs {
		if i%7 != arg%7 || g == nil {
			continue
		}
		fmt.Fprintf(&b, "%v;", g.Components())
		if sg, ok := g.Data.(glyf.SimpleGlyph); ok {
			info, err := sg.Decode()
			if err == nil {
				fmt.Fprintf(&b, "%d,", len(info.Contours))
			}
		}
	}
	return fmt.Sprintf("%d %x %x %s", enc.LocaFormat, strHash(string(enc.GlyfData)), strHash(string(enc.LocaData)), b.String())
}

// ---- sequential controls: operations that do modify the shared font.
// They are never part of a property case; they validate that the model's
// cells and the real fields behave alike (a write is seen by later reads).

var mutFields = []string{"FamilyName", "Version", "Ascent", "IsBold", "Copyright", "UnitsPerEm", "UnderlinePosition", "Gpos"}

func (e *Env) setField(name string, k int) {
	fv := reflect.ValueOf(e.Font).Elem().FieldByName(name)
	orig := e.orig[name]
	if k == 0 {
		fv.Set(orig)
		return
	}
	switch name {
	case "FamilyName":
		fv.SetString(fmt.Sprintf("Mut%d", k))
	case "Copyright":
		fv.SetString(fmt.Sprintf("(c) %d", 2000+k))
	case "Version", "UnitsPerEm":
		fv.SetUint(orig.Uint() + uint64(k)*16)
	case "Ascent":
		fv.SetInt(orig.Int() + int64(k)*3)
	case "IsBold":
		fv.SetBool(!orig.Bool()) // only one alternative
	case "UnderlinePosition":
		fv.SetFloat(orig.Float() - float64(k)*5)
	case "Gpos":
		if k == 1 {
			fv.Set(reflect.Zero(fv.Type()))
		} else {
			fv.Set(reflect.ValueOf(e.altGpos))
		}
	}
}

// Restore puts every mutable field back to its pristine value.
func (e *Env) Restore() {
	for _, m := range mutFields {
		e.setField(m, 0)
	}
}

func numAlt(field string) int {
	if field == "IsBold" {
		return 2
	}
	return 3
}

func mkSet(field string) OpFn {
	return func(e *Env, tc *ThreadCtx, arg int) string {
		e.setField(field, arg%numAlt(field))
		return "set"
	}
}

var Ops []OpSpec
var opIndex = map[string]*OpSpec{}

func init() {
	Ops = []OpSpec{
		{Name: "Write", Fn: Op_Write, NArg: 1},
		{Name: "WritePDF", Fn: Op_WritePDF, NArg: 2},
		{Name: "Subset", Fn: Op_Subset, NArg: 7},
		{Name: "SubsetWrite", Fn: Op_SubsetWrite, NArg: 7},
		{Name: "Clone", Fn: Op_Clone, NArg: 1},
		{Name: "CloneModify", Fn: Op_CloneModify, NArg: 3},
		{Name: "FontBBox", Fn: Op_FontBBox, NArg: 1},
		{Name: "Widths", Fn: Op_Widths, NArg: 1},
		{Name: "GlyphBBox", Fn: Op_GlyphBBox, NArg: 1},
		{Name: "FDSweep", Fn: Op_FDSweep, NArg: 4},
		{Name: "MakeGlyphNames", Fn: Op_MakeGlyphNames, NArg: 1},
		{Name: "GetFontInfo", Fn: Op_GetFontInfo, NArg: 1},
		{Name: "AsCFFWrite", Fn: Op_AsCFFWrite, Kind: "cff", NArg: 1},
		{Name: "Layout", Fn: Op_Layout, NArg: 3},
		{Name: "LayoutOwn", Fn: Op_LayoutOwn, NArg: 5, Priv: true},
		{Name: "ApplyGsub", Fn: Op_ApplyGsub, Gtab: true, NArg: 1},
		{Name: "ApplyGpos", Fn: Op_ApplyGpos, Gtab: true, NArg: 1},
		{Name: "ApplyLists", Fn: Op_ApplyLists, Gtab: true, NArg: 8},
		{Name: "ExplainGsub", Fn: Op_ExplainGsub, Gtab: true, NArg: 1},
		{Name: "ExplainGpos", Fn: Op_ExplainGpos, Gtab: true, NArg: 1},
		{Name: "EncodeGtab", Fn: Op_EncodeGtab, NArg: 1},
		{Name: "CMapLookup", Fn: Op_CMapLookup, NArg: 1},
		{Name: "GlyfEncode", Fn: Op_GlyfEncode, Kind: "glyf", NArg: 7},
		{Name: "LayoutShared", Fn: Op_LayoutShared, Gtab: true, NArg: 1, Control: "shared-layouter"},
	}
	for _, m := range mutFields {
		Ops = append(Ops, OpSpec{Name: "Set" + m, Fn: mkSet(m), NArg: numAlt(m), Control: "mutator", Field: m})
	}
	for i := range Ops {
		opIndex[Ops[i].Name] = &Ops[i]
	}
}

// Applicable reports whether the operation makes sense in the environment.
func (o *OpSpec) Applicable(e *Env) bool {
	if o.Kind != "" && o.Kind != e.Kind {
		return false
	}
	if o.Gtab && e.Font.Gsub == nil && e.Font.Gpos == nil {
		return false
	}
	if o.Field == "Gpos" && e.Font.Gpos == nil {
		return false
	}
	return true
}

// Call runs one operation; a panic is an observation.
func Call(o *OpSpec, e *Env, tc *ThreadCtx, arg int) (res string) {
	defer func() {
		if r := recover(); r != nil {
			res = "panic"
		}
	}()
	return o.Fn(e, tc, arg)
}

// PropertyOps lists the read-only operations applicable in e.
func PropertyOps(e *Env) []*OpSpec {
	var out []*OpSpec
	for i := range Ops {
		if Ops[i].Control == "" && Ops[i].Applicable(e) {
			out = append(out, &Ops[i])
		}
	}
	return out
}
