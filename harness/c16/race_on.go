//go:build race

package c16

func init() { RaceEnabled = true }
