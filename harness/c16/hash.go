package c16

// Deep structural hashing of Go values, including unexported fields (reached
// through unsafe).  Pointers are followed (never hashed as addresses), maps are
// hashed in an order that does not depend on iteration order, floats by their
// bit pattern.  What the hash cannot see is listed in props/C16.py: captured
// variables of function values, replacing a pointer by a pointer to an equal
// object, and memory not reachable from the root.

import (
	"crypto/sha256"
	"encoding/binary"
	"hash"
	"reflect"
	"sort"
	"time"
	"unsafe"
)

type visitKey struct {
	p unsafe.Pointer
	t reflect.Type
}

type hasher struct {
	h       hash.Hash
	visited map[visitKey]int

	// Spare capacity of byte slices: sub-slices of one array (the glyphs of a
	// TrueType font are sub-slices of the "glyf" table, each with the rest of
	// the table as spare capacity) share their spare bytes.  Every spare byte
	// is hashed, but once: per distinct array end, the bytes from the smallest
	// len-end of the slices ending there up to the array end; the region
	// hashes are appended to the walk's hash in sorted order (so that the
	// result does not depend on addresses or on map iteration order).
	spare map[uintptr]unsafe.Pointer // array end -> lowest start of a spare region
	top   bool
}

func newHasher() *hasher {
	return &hasher{h: sha256.New(), visited: map[visitKey]int{}, spare: map[uintptr]unsafe.Pointer{}, top: true}
}

func (hs *hasher) sub() *hasher {
	return &hasher{h: sha256.New(), visited: hs.visited, spare: hs.spare}
}

func (hs *hasher) u64(x uint64) {
	var b [8]byte
	binary.LittleEndian.PutUint64(b[:], x)
	hs.h.Write(b[:])
}

func (hs *hasher) tag(s string) {
	hs.u64(uint64(len(s)))
	hs.h.Write([]byte(s))
}

func (hs *hasher) sum() [32]byte {
	if hs.top && len(hs.spare) > 0 {
		regions := make([][32]byte, 0, len(hs.spare))
		for end, start := range hs.spare {
			regions = append(regions, sha256.Sum256(unsafe.Slice((*byte)(start), end-uintptr(start))))
		}
		sort.Slice(regions, func(i, j int) bool {
			for b := 0; b < 32; b++ {
				if regions[i][b] != regions[j][b] {
					return regions[i][b] < regions[j][b]
				}
			}
			return false
		})
		hs.tag("spare")
		for _, r := range regions {
			hs.h.Write(r[:])
		}
		hs.spare = map[uintptr]unsafe.Pointer{}
	}
	var out [32]byte
	copy(out[:], hs.h.Sum(nil))
	return out
}

var timeType = reflect.TypeOf(time.Time{})

// rw returns a value that can be read without restriction: values obtained
// through unexported fields carry a read-only flag which is removed by
// re-deriving them from their address.
func rw(v reflect.Value) reflect.Value {
	if v.CanInterface() {
		return v
	}
	if v.CanAddr() {
		return reflect.NewAt(v.Type(), unsafe.Pointer(v.UnsafeAddr())).Elem()
	}
	return v
}

// addressable copies a non-addressable struct/array into fresh storage so that
// its unexported fields can be reached.
func addressable(v reflect.Value) reflect.Value {
	if v.CanAddr() {
		return v
	}
	c := reflect.New(v.Type()).Elem()
	c.Set(v)
	return c
}

func (hs *hasher) walk(v reflect.Value) {
	if !v.IsValid() {
		hs.tag("invalid")
		return
	}
	v = rw(v)
	switch v.Kind() {
	case reflect.Bool:
		if v.Bool() {
			hs.u64(1)
		} else {
			hs.u64(0)
		}
	case reflect.Int, reflect.Int8, reflect.Int16, reflect.Int32, reflect.Int64:
		hs.u64(uint64(v.Int()))
	case reflect.Uint, reflect.Uint8, reflect.Uint16, reflect.Uint32, reflect.Uint64, reflect.Uintptr:
		hs.u64(v.Uint())
	case reflect.Float32, reflect.Float64:
		hs.u64(mathFloat64bits(v.Float()))
	case reflect.Complex64, reflect.Complex128:
		c := v.Complex()
		hs.u64(mathFloat64bits(real(c)))
		hs.u64(mathFloat64bits(imag(c)))
	case reflect.String:
		hs.tag(v.String())
	case reflect.Slice:
		if v.IsNil() {
			hs.tag("nilslice")
			return
		}
		hs.tag("slice")
		n := v.Len()
		hs.u64(uint64(n))
		// the spare capacity behind len is shared memory too: an append in place
		// on a slice of the shared font writes there without changing len
		full := v
		if v.Cap() > n {
			full = v.Slice(0, v.Cap())
			hs.tag("cap")
			hs.u64(uint64(v.Cap()))
		}
		if v.Type().Elem().Kind() == reflect.Uint8 {
			hs.h.Write(v.Bytes())
			if v.Cap() > n {
				start := unsafe.Add(v.UnsafePointer(), n)
				end := uintptr(v.UnsafePointer()) + uintptr(v.Cap())
				if old, ok := hs.spare[end]; !ok || uintptr(start) < uintptr(old) {
					hs.spare[end] = start
				}
			}
			return
		}
		for i := 0; i < full.Len(); i++ {
			hs.walk(full.Index(i))
		}
	case reflect.Array:
		v = addressable(v)
		n := v.Len()
		hs.u64(uint64(n))
		for i := 0; i < n; i++ {
			hs.walk(v.Index(i))
		}
	case reflect.Map:
		if v.IsNil() {
			hs.tag("nilmap")
			return
		}
		hs.tag("map")
		hs.u64(uint64(v.Len()))
		type ent struct{ k, e [32]byte }
		var ents []ent
		it := v.MapRange()
		for it.Next() {
			kh := hs.sub()
			kh.walk(it.Key())
			eh := hs.sub()
			eh.walk(it.Value())
			ents = append(ents, ent{kh.sum(), eh.sum()})
		}
		sort.Slice(ents, func(i, j int) bool {
			for b := 0; b < 32; b++ {
				if ents[i].k[b] != ents[j].k[b] {
					return ents[i].k[b] < ents[j].k[b]
				}
			}
			for b := 0; b < 32; b++ {
				if ents[i].e[b] != ents[j].e[b] {
					return ents[i].e[b] < ents[j].e[b]
				}
			}
			return false
		})
		for _, e := range ents {
			hs.h.Write(e.k[:])
			hs.h.Write(e.e[:])
		}
	case reflect.Ptr:
		if v.IsNil() {
			hs.tag("nilptr")
			return
		}
		key := visitKey{unsafe.Pointer(v.Pointer()), v.Type()}
		if _, ok := hs.visited[key]; ok {
			// The pointer is on the path from the root to here: a cycle.
			// (Shared, acyclic targets are hashed at every occurrence, so
			// that the result does not depend on map iteration order.)
			hs.tag("cycle")
			return
		}
		hs.visited[key] = len(hs.visited)
		hs.tag("ptr")
		hs.walk(v.Elem())
		delete(hs.visited, key)
	case reflect.Interface:
		if v.IsNil() {
			hs.tag("nilif")
			return
		}
		hs.tag("if:" + v.Elem().Type().String())
		hs.walk(v.Elem())
	case reflect.Struct:
		if v.Type() == timeType {
			v = addressable(v)
			t := rw(v).Interface().(time.Time)
			hs.tag("time")
			hs.u64(uint64(t.Unix()))
			hs.u64(uint64(t.Nanosecond()))
			name, off := t.Zone()
			hs.tag(name)
			hs.u64(uint64(off))
			return
		}
		v = addressable(v)
		t := v.Type()
		hs.tag("struct:" + t.String())
		for i := 0; i < v.NumField(); i++ {
			hs.tag(t.Field(i).Name)
			hs.walk(v.Field(i))
		}
	case reflect.Func:
		if v.IsNil() {
			hs.tag("nilfunc")
		} else {
			hs.tag("func")
		}
	default:
		hs.tag("opaque:" + v.Kind().String())
	}
}

func mathFloat64bits(f float64) uint64 { return *(*uint64)(unsafe.Pointer(&f)) }

// DeepHash hashes everything reachable from the pointer p.
func DeepHash(p any) [32]byte {
	hs := newHasher()
	hs.walk(reflect.ValueOf(p))
	return hs.sum()
}

func hash32(h [32]byte) uint32 { return binary.BigEndian.Uint32(h[:4]) & 0x7fffffff }

func strHash(s string) [32]byte { return sha256.Sum256([]byte(s)) }
