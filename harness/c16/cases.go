package c16

// cases.go: the case-line syntax shared by the generator, the replayer, the
// race-enabled worker and (on the other side) ocaml/c16_driver.ml.
//
//   <mode> <env> (heap (cell val)...) (threads (<op>...)...) (sched tid...)
//   <op> = (Name arg (r cell...) (w (cell val)...))
//
// mode "frozen": as "seq", on a copy of the environment whose shared state lies
// in read-only memory (freeze.go); mode "seq": the operations are executed one at a time in the order given by
// the schedule (each operation's steps are contiguous in it); mode "conc":
// every thread is a goroutine of the race-enabled worker, the schedule is one
// of the interleavings the model is asked about.

import (
	"fmt"

	"seehuhn.de/go/sfnt/verifharness/vlib"
)

type opInst struct {
	Name string
	Arg  int
	R    []int
	W    []CellVal
}

func (o opInst) steps() int { return len(o.R) + len(o.W) + 1 }

type caseT struct {
	Mode    string
	Env     string
	Heap    []CellVal
	Threads [][]opInst
	Sched   []int
}

func cvList(tag string, xs []CellVal) vlib.Sx {
	l := vlib.List{vlib.Atom(tag)}
	for _, x := range xs {
		l = append(l, vlib.L(vlib.Int(x.Cell), vlib.U64(uint64(x.Val))))
	}
	return l
}

func (c *caseT) Line() string {
	th := vlib.List{vlib.Atom("threads")}
	for _, t := range c.Threads {
		tl := vlib.List{}
		for _, o := range t {
			r := vlib.List{vlib.Atom("r")}
			for _, x := range o.R {
				r = append(r, vlib.Int(x))
			}
			tl = append(tl, vlib.L(vlib.Atom(o.Name), vlib.Int(o.Arg), r, cvList("w", o.W)))
		}
		th = append(th, tl)
	}
	sc := vlib.List{vlib.Atom("sched")}
	for _, s := range c.Sched {
		sc = append(sc, vlib.Int(s))
	}
	return vlib.Line(vlib.Atom(c.Mode), vlib.Atom(c.Env), cvList("heap", c.Heap), th, sc)
}

func parseCVs(x vlib.Sx, tag string) ([]CellVal, error) {
	l, err := vlib.AsList(x)
	if err != nil || len(l) == 0 {
		return nil, fmt.Errorf("(%s ...) expected", tag)
	}
	if a, _ := vlib.AsAtom(l[0]); a != tag {
		return nil, fmt.Errorf("(%s ...) expected", tag)
	}
	var out []CellVal
	for _, y := range l[1:] {
		p, err := vlib.AsInts(y)
		if err != nil || len(p) != 2 {
			return nil, fmt.Errorf("bad (cell val) pair in %s", tag)
		}
		out = append(out, CellVal{p[0], uint32(p[1])})
	}
	return out, nil
}

func parseCase(line string) (*caseT, error) {
	items, err := vlib.Parse(line)
	if err != nil {
		return nil, err
	}
	if len(items) != 5 {
		return nil, fmt.Errorf("C16 case: want 5 items, got %d", len(items))
	}
	c := &caseT{}
	if c.Mode, err = vlib.AsAtom(items[0]); err != nil {
		return nil, err
	}
	if c.Mode != "seq" && c.Mode != "conc" && c.Mode != "frozen" {
		return nil, fmt.Errorf("bad mode %q", c.Mode)
	}
	if c.Env, err = vlib.AsAtom(items[1]); err != nil {
		return nil, err
	}
	if c.Heap, err = parseCVs(items[2], "heap"); err != nil {
		return nil, err
	}
	tl, err := vlib.AsList(items[3])
	if err != nil || len(tl) == 0 {
		return nil, fmt.Errorf("(threads ...) expected")
	}
	for _, t := range tl[1:] {
		ol, err := vlib.AsList(t)
		if err != nil {
			return nil, err
		}
		var ops []opInst
		for _, o := range ol {
			f, err := vlib.AsList(o)
			if err != nil || len(f) != 4 {
				return nil, fmt.Errorf("bad op")
			}
			var oi opInst
			if oi.Name, err = vlib.AsAtom(f[0]); err != nil {
				return nil, err
			}
			if opIndex[oi.Name] == nil {
				return nil, fmt.Errorf("unknown operation %q", oi.Name)
			}
			if oi.Arg, err = vlib.AsInt(f[1]); err != nil {
				return nil, err
			}
			rl, err := vlib.AsList(f[2])
			if err != nil || len(rl) == 0 {
				return nil, fmt.Errorf("bad (r ...)")
			}
			for _, x := range rl[1:] {
				v, err := vlib.AsInt(x)
				if err != nil {
					return nil, err
				}
				oi.R = append(oi.R, v)
			}
			if oi.W, err = parseCVs(f[3], "w"); err != nil {
				return nil, err
			}
			ops = append(ops, oi)
		}
		c.Threads = append(c.Threads, ops)
	}
	sl, err := vlib.AsList(items[4])
	if err != nil || len(sl) == 0 {
		return nil, fmt.Errorf("(sched ...) expected")
	}
	for _, x := range sl[1:] {
		v, err := vlib.AsInt(x)
		if err != nil {
			return nil, err
		}
		c.Sched = append(c.Sched, v)
	}
	return c, nil
}

// hasControl reports whether the case contains an operation outside the
// property (mutator, shared Layouter).
func (c *caseT) hasControl() bool {
	for _, t := range c.Threads {
		for _, o := range t {
			if opIndex[o.Name].Control != "" {
				return true
			}
		}
	}
	return false
}

// observation renders what both sides print for one case.
func observation(flags [][]bool, fin []bool, diff []CellVal, mode string, race bool) string {
	if mode == "conc" && race {
		return "((race 1))"
	}
	res := vlib.List{vlib.Atom("res")}
	for _, t := range flags {
		tl := vlib.List{}
		for _, b := range t {
			tl = append(tl, vlib.Bool(b))
		}
		res = append(res, tl)
	}
	fl := vlib.List{vlib.Atom("fin")}
	for _, b := range fin {
		fl = append(fl, vlib.Bool(b))
	}
	items := []vlib.Sx{res, fl, cvList("heapdiff", diff)}
	if mode == "conc" {
		items = append(items, vlib.L(vlib.Atom("race"), vlib.Int(0)))
	}
	return vlib.Str(vlib.L(items...))
}
