package c16

// alias.go: which memory of an object ALIASES memory reachable from the
// shared font?  Hook-free: the memory reachable from the font (every pointer
// target, every backing array including spare capacity, every map) is found by
// the first pass of freeze.go; a field of a receiver object (Layouter,
// gtab.Context, nested, keepFunc, a cloned / subset font) is then classified by
// pointer-range overlap.  Used by part C16B, whose Coq model states which
// fields of which receiver alias the font and which are fresh.

import (
	"reflect"
	"sort"
	"unsafe"

	"seehuhn.de/go/sfnt/glyph"
)

// RegionSet is the memory reachable from the shared state of an environment.
type RegionSet struct {
	regions []region
	maps    map[unsafe.Pointer]bool
}

// SharedRegions computes the memory reachable from the font and the shared
// lookup lists of e.  Nothing is moved or changed.
func SharedRegions(e *Env) *RegionSet {
	a := &arena{moved: map[movedKey]unsafe.Pointer{}, seen: map[movedKey]bool{}, mapPtrs: map[unsafe.Pointer]bool{}}
	a.collect(reflect.ValueOf(&e.Font).Elem(), "Font")
	a.collect(reflect.ValueOf(&e.Lists).Elem(), "Lists")
	a.mergeRegions()
	return &RegionSet{regions: a.regions, maps: a.mapPtrs}
}

// Overlaps reports whether [p, p+size) intersects shared memory, and names the
// shared object.
func (rs *RegionSet) Overlaps(p unsafe.Pointer, size uintptr) (bool, string) {
	if p == nil {
		return false, ""
	}
	return rs.overlapsAddr(uintptr(p), size)
}

func (rs *RegionSet) overlapsAddr(lo, size uintptr) (bool, string) {
	if size == 0 {
		return false, ""
	}
	hi := lo + size
	i := sort.Search(len(rs.regions), func(i int) bool { return rs.regions[i].hi > lo })
	if i < len(rs.regions) && rs.regions[i].lo < hi {
		return true, rs.regions[i].path
	}
	return false, ""
}

func (rs *RegionSet) Bytes() int {
	n := 0
	for _, r := range rs.regions {
		n += int(r.hi - r.lo)
	}
	return n
}

// FieldAlias is the classification of one field of a receiver object.
type FieldAlias struct {
	Name   string
	Kind   string // "alias": refers to shared memory; "fresh": refers to memory not reachable from the font; "none": nil / empty / no reference
	Shared string // for alias: the shared object
}

// classifyRef classifies one reference-typed value.
func (rs *RegionSet) classifyRef(v reflect.Value) (string, string) {
	v = rw(v)
	switch v.Kind() {
	case reflect.Ptr:
		if v.IsNil() {
			return "none", ""
		}
		if ok, p := rs.Overlaps(v.UnsafePointer(), v.Type().Elem().Size()); ok {
			return "alias", p
		}
		return "fresh", ""
	case reflect.Slice:
		if v.IsNil() || v.Cap() == 0 {
			return "none", ""
		}
		if ok, p := rs.Overlaps(v.UnsafePointer(), uintptr(v.Cap())*v.Type().Elem().Size()); ok {
			return "alias", p
		}
		return "fresh", ""
	case reflect.Map:
		if v.IsNil() {
			return "none", ""
		}
		if rs.maps[v.UnsafePointer()] {
			return "alias", "(map)"
		}
		return "fresh", ""
	case reflect.Interface:
		if v.IsNil() {
			return "none", ""
		}
		el := v.Elem()
		switch el.Kind() {
		case reflect.Ptr, reflect.Map, reflect.Slice:
			return rs.classifyRef(el)
		}
		return "fresh", ""
	}
	return "", ""
}

// ClassifyValue classifies one reference-typed value (a slice, pointer, map
// or interface): "alias", "fresh" or "none".
func (rs *RegionSet) ClassifyValue(v reflect.Value) string {
	k, _ := rs.classifyRef(v)
	return k
}

// ClassifyFields classifies the reference-typed fields (pointers, slices,
// maps, interfaces) of the struct p points to.
func (rs *RegionSet) ClassifyFields(p any) []FieldAlias {
	v := reflect.ValueOf(p)
	if v.Kind() != reflect.Ptr || v.IsNil() || v.Elem().Kind() != reflect.Struct {
		return nil
	}
	v = v.Elem()
	t := v.Type()
	var out []FieldAlias
	for i := 0; i < v.NumField(); i++ {
		k, sh := rs.classifyRef(v.Field(i))
		if k != "" {
			out = append(out, FieldAlias{t.Field(i).Name, k, sh})
		}
	}
	return out
}

// Field returns the (readable, addressable) field of the struct p points to.
func Field(p any, name string) reflect.Value {
	v := reflect.ValueOf(p)
	if v.Kind() == reflect.Ptr {
		v = v.Elem()
	}
	return rw(v.FieldByName(name))
}

// DeepHashValue hashes everything reachable from v (see hash.go).
func DeepHashValue(v reflect.Value) [32]byte {
	hs := newHasher()
	hs.walk(v)
	return hs.sum()
}

// ReachableRegions computes the memory reachable from the addressable value v
// (a receiver object): used to check that two receivers created from the same
// font have nothing in common but font memory.
func ReachableRegions(v reflect.Value) *RegionSet {
	a := &arena{moved: map[movedKey]unsafe.Pointer{}, seen: map[movedKey]bool{}, mapPtrs: map[unsafe.Pointer]bool{}}
	a.collect(v, "recv")
	a.mergeRegions()
	return &RegionSet{regions: a.regions, maps: a.mapPtrs}
}

// CommonOutside lists the memory that both region sets contain and that is not
// part of the set font.
func CommonOutside(a, b, font *RegionSet) []string {
	var out []string
	i, j := 0, 0
	for i < len(a.regions) && j < len(b.regions) {
		ra, rb := a.regions[i], b.regions[j]
		lo, hi := ra.lo, ra.hi
		if rb.lo > lo {
			lo = rb.lo
		}
		if rb.hi < hi {
			hi = rb.hi
		}
		if lo < hi {
			if ok, _ := font.overlapsAddr(lo, hi-lo); !ok {
				out = append(out, ra.path+" = "+rb.path)
			}
		}
		if ra.hi < rb.hi {
			i++
		} else {
			j++
		}
	}
	for m := range a.maps {
		if b.maps[m] && !font.maps[m] {
			out = append(out, "(a map)")
		}
	}
	return out
}

// ---- exported accessors for part C16B

func TextSeq(e *Env, in string) []glyph.Info { return textSeq(e.Font, in) }

func SubsetGlyphs(e *Env, arg int) []glyph.ID { return subsetGlyphs(e, arg) }

// QuickEnvNames are the environments of the quick tier.
var QuickEnvNames = []string{"rt-cid3", "rt-cid0", "cff-gtab", "cff-sub", "cff-cid", "cff-nonames", "rt-cff",
	"glyf-gtab", "glyf-sub", "glyf-bi", "glyf-nonames", "rt-glyf", "cff-big", "cff-ctx", "rt-ctx", "cff-all"}

// AllEnvNames are the environments of the thorough tier.
func AllEnvNames() []string { return append(append([]string{}, EnvNames...), RichEnvNames...) }

// RW makes a value obtained through unexported fields readable.
func RW(v reflect.Value) reflect.Value { return rw(v) }
