package c16

// richenv.go: environments whose GSUB/GPOS/GDEF tables are built directly as
// Go values (not through builder.Parse, whose grammar has no GSUB 8.1, GPOS
// 5.1/6.1 and always produces the shortest sequences) so that EVERY kind of
// subtable the library has is present and every slice-typed field of every
// kind holds at least three distinct elements: contextual lookups of all three
// formats (SeqContext1-3, ChainedSeqContext1-3, GSUB 8.1) in GSUB and in GPOS
// with backtrack / input / lookahead sequences of length >= 3 that are not
// palindromes, ligature sets, class definitions, mark arrays, base / ligature
// / mark2 arrays, multi-subtable lookups, mark filtering sets.
//
// A write that a "read-only" operation makes into one of these slices and
// undoes before it returns (reverse in place - print - reverse back) can only
// be noticed when the slice is long enough and not symmetric.
//
//   cff-ctx   everything ExplainGsub/ExplainGpos can print (no 8.1, 5.1, 6.1)
//   cff-all   plus GSUB 8.1 and GPOS 5.1 / 6.1 (ExplainGsub panics on 8.1:
//             that is its documented behaviour, the observation is "panic")
//   rt-ctx    cff-ctx written by Font.Write and read back by sfnt.Read: the
//             readers' objects (append-grown slices, cap > len)
//   rt-all    the same for cff-all
//   glyf-ctx  the tables of cff-ctx on a TrueType font
//
// coverageGaps() walks the tables of an environment and reports the slice-
// typed fields (of the gtab, gdef, markarray, anchor types) that nowhere hold
// three distinct elements, and subtableKindsInSource() lists the types with an
// apply method found in the source tree the harness was built against, so that
// a subtable kind added to the library but unknown here is reported.

import (
	"fmt"
	"go/ast"
	"go/parser"
	"go/token"
	"io/fs"
	"path/filepath"
	"reflect"
	"runtime"
	"sort"
	"strings"

	"seehuhn.de/go/postscript/funit"

	"seehuhn.de/go/sfnt"
	"seehuhn.de/go/sfnt/glyph"
	"seehuhn.de/go/sfnt/opentype/anchor"
	"seehuhn.de/go/sfnt/opentype/classdef"
	"seehuhn.de/go/sfnt/opentype/coverage"
	"seehuhn.de/go/sfnt/opentype/gdef"
	"seehuhn.de/go/sfnt/opentype/gtab"
	"seehuhn.de/go/sfnt/opentype/markarray"
)

// RichEnvNames are the environments built here.
var RichEnvNames = []string{"cff-ctx", "cff-all", "rt-ctx", "rt-all", "glyf-ctx"}

func isRichEnv(name string) bool {
	for _, n := range RichEnvNames {
		if n == name {
			return true
		}
	}
	return false
}

type richBuilder struct {
	g func(r rune) glyph.ID
}

func (b *richBuilder) ids(s string) []glyph.ID {
	out := make([]glyph.ID, 0, len(s))
	for _, r := range s {
		out = append(out, b.g(r))
	}
	return out
}

func (b *richBuilder) set(s string) coverage.Set {
	out := coverage.Set{}
	for _, r := range s {
		out[b.g(r)] = true
	}
	return out
}

// tab gives the glyphs coverage indices in the order of their glyph ids (the
// order the binary format imposes).
func (b *richBuilder) tab(s string) coverage.Table {
	gg := b.ids(s)
	sort.Slice(gg, func(i, j int) bool { return gg[i] < gg[j] })
	out := coverage.Table{}
	for i, g := range gg {
		out[g] = i
	}
	return out
}

// classes: "ABC" "DE" ... -> class 1, 2, ...
func (b *richBuilder) classes(groups ...string) classdef.Table {
	out := classdef.Table{}
	for i, s := range groups {
		for _, r := range s {
			out[b.g(r)] = uint16(i + 1)
		}
	}
	return out
}

func acts(xs ...int) []gtab.SeqLookup {
	var out []gtab.SeqLookup
	for i := 0; i+1 < len(xs); i += 2 {
		out = append(out, gtab.SeqLookup{SequenceIndex: uint16(xs[i]), LookupListIndex: gtab.LookupIndex(xs[i+1])})
	}
	return out
}

// perCov builds the per-coverage-index rule sets of a format 1 subtable: the
// sets are given in the order of the runes of first, and are stored under the
// coverage index of that rune.
func perCov[T any](cov coverage.Table, b *richBuilder, first string, sets ...[]T) [][]T {
	out := make([][]T, len(cov))
	for i, r := range first {
		out[cov[b.g(r)]] = sets[i]
	}
	return out
}

// contextLookups returns the six contextual lookups (types ctxType = GSUB 5 /
// GPOS 7 and chType = GSUB 6 / GPOS 8, formats 1-3) plus a seventh with three
// subtables and lookup flags; n1..n3 are the indices of the nested lookups the
// actions refer to.  Every call builds new objects.
func (b *richBuilder) contextLookups(ctxType, chType uint16, n1, n2, n3 int) (gtab.LookupList, []string) {
	var ll gtab.LookupList
	var texts []string
	add := func(tp uint16, flags gtab.LookupFlags, mfs uint16, text string, st ...gtab.Subtable) {
		ll = append(ll, &gtab.LookupTable{
			Meta:      &gtab.LookupMetaInfo{LookupType: tp, LookupFlags: flags, MarkFilteringSet: mfs},
			Subtables: st,
		})
		texts = append(texts, text)
	}

	// format 1, glyph sequences
	cov := b.tab("ABC")
	add(ctxType, 0, 0, "ABCD BCDE CDEF ACDB AEDC", &gtab.SeqContext1{
		Cov: cov,
		Rules: perCov(cov, b, "ABC",
			[]*gtab.SeqRule{
				{Input: b.ids("BCD"), Actions: acts(0, n1, 2, n2, 1, n3)},
				{Input: b.ids("CDB"), Actions: acts(1, n2, 0, n3, 3, n1)},
				{Input: b.ids("DBCE"), Actions: acts(2, n3, 1, n1, 0, n2)},
				// boundary: a nested lookup the list does not have, a sequence
				// index behind the input, the largest values the format can hold
				{Input: b.ids("EDC"), Actions: acts(1, 999, 7, n1, 0, 65535, 65535, n2, 2, n3)},
			},
			[]*gtab.SeqRule{
				{Input: b.ids("CDE"), Actions: acts(0, n2, 1, n1, 2, n3)},
				{Input: b.ids("DEC"), Actions: acts(3, n1, 2, n2, 0, n3)},
				{Input: b.ids("ECD"), Actions: acts(1, n3, 3, n2, 2, n1)},
			},
			[]*gtab.SeqRule{
				{Input: b.ids("DEF"), Actions: acts(2, n1, 0, n2, 1, n3)},
				{Input: b.ids("EFD"), Actions: acts(0, n3, 3, n1, 2, n2)},
				{Input: b.ids("FDE"), Actions: acts(1, n1, 2, n3, 3, n2)},
			}),
	})

	// format 2, class sequences
	add(ctxType, 0, 0, "EFGH FGHI GHIJ EGHI EGFE", &gtab.SeqContext2{
		Cov:   b.tab("EFG"),
		Input: b.classes("EH", "FI", "GJ"),
		Rules: [][]*gtab.ClassSeqRule{
			nil,
			{
				{Input: []uint16{2, 3, 1}, Actions: acts(0, n1, 1, n2, 2, n3)},
				{Input: []uint16{3, 1, 2}, Actions: acts(3, n2, 0, n3, 1, n1)},
				{Input: []uint16{1, 3, 2, 2}, Actions: acts(2, n3, 3, n1, 0, n2)},
				{Input: []uint16{3, 2, 1}, Actions: acts(0, 999, 1, n1, 8, n2, 2, n3)},
			},
			{
				{Input: []uint16{3, 1, 2}, Actions: acts(1, n1, 2, n2, 3, n3)},
				{Input: []uint16{1, 2, 3}, Actions: acts(0, n2, 3, n3, 2, n1)},
				{Input: []uint16{2, 2, 1}, Actions: acts(2, n3, 0, n1, 1, n2)},
			},
			{
				{Input: []uint16{1, 2, 3}, Actions: acts(3, n1, 1, n2, 0, n3)},
				{Input: []uint16{2, 3, 1}, Actions: acts(2, n2, 0, n3, 3, n1)},
				{Input: []uint16{3, 3, 1}, Actions: acts(1, n3, 2, n1, 0, n2)},
			},
		},
	})

	// format 3, coverage sequences
	add(ctxType, 0, 0, "JKLP KLPQ LPQR", &gtab.SeqContext3{
		Input:   []coverage.Set{b.set("JKL"), b.set("KLP"), b.set("LPQ"), b.set("PQR")},
		Actions: acts(0, n1, 3, n2, 1, n3, 2, n1),
	})

	// chained, format 1: Backtrack is stored closest glyph first
	cov = b.tab("DHP")
	add(chType, 0, 0, "ABCDEFGHIJ EFGHIJKLPQ JKLPQRSTUV BCADEGFIJH BACDGFEJIH", &gtab.ChainedSeqContext1{
		Cov: cov,
		Rules: perCov(cov, b, "DHP",
			[]*gtab.ChainedSeqRule{
				{Backtrack: b.ids("CBA"), Input: b.ids("EFG"), Lookahead: b.ids("HIJ"), Actions: acts(0, n1, 2, n2, 1, n3)},
				{Backtrack: b.ids("ACB"), Input: b.ids("EGF"), Lookahead: b.ids("IJH"), Actions: acts(1, n2, 3, n3, 0, n1)},
				{Backtrack: b.ids("BACE"), Input: b.ids("FGE"), Lookahead: b.ids("JHIK"), Actions: acts(2, n3, 0, n1, 3, n2)},
				{Backtrack: b.ids("CAB"), Input: b.ids("GFE"), Lookahead: b.ids("JIH"), Actions: acts(0, 999, 1, n1, 9, n2, 2, 65535, 3, n3)},
			},
			[]*gtab.ChainedSeqRule{
				{Backtrack: b.ids("GFE"), Input: b.ids("IJK"), Lookahead: b.ids("LPQ"), Actions: acts(0, n2, 1, n1, 2, n3)},
				{Backtrack: b.ids("EGF"), Input: b.ids("JKI"), Lookahead: b.ids("PQL"), Actions: acts(3, n1, 2, n2, 0, n3)},
				{Backtrack: b.ids("FEG"), Input: b.ids("KIJ"), Lookahead: b.ids("QLP"), Actions: acts(1, n3, 0, n2, 2, n1)},
			},
			[]*gtab.ChainedSeqRule{
				{Backtrack: b.ids("LKJ"), Input: b.ids("QRS"), Lookahead: b.ids("TUV"), Actions: acts(2, n1, 0, n2, 1, n3)},
				{Backtrack: b.ids("JLK"), Input: b.ids("RSQ"), Lookahead: b.ids("UVT"), Actions: acts(0, n3, 3, n1, 2, n2)},
				{Backtrack: b.ids("KJL"), Input: b.ids("SQR"), Lookahead: b.ids("VTU"), Actions: acts(1, n1, 2, n3, 3, n2)},
			}),
	})

	// chained, format 2
	add(chType, 0, 0, "ABCQRSTWXY BCDRSTUXYZ CABQSRTXWY", &gtab.ChainedSeqContext2{
		Cov:       b.tab("QRS"),
		Backtrack: b.classes("AD", "BE", "CF"),
		Input:     b.classes("QT", "RU", "SV"),
		Lookahead: b.classes("WZ", "X", "Y"),
		Rules: [][]*gtab.ChainedClassSeqRule{
			nil,
			{
				{Backtrack: []uint16{3, 2, 1}, Input: []uint16{2, 3, 1}, Lookahead: []uint16{1, 2, 3}, Actions: acts(0, n1, 1, n2, 2, n3)},
				{Backtrack: []uint16{2, 1, 3}, Input: []uint16{3, 2, 1}, Lookahead: []uint16{2, 1, 3}, Actions: acts(3, n2, 0, n3, 1, n1)},
				{Backtrack: []uint16{1, 3, 2, 2}, Input: []uint16{1, 2, 3}, Lookahead: []uint16{3, 1, 2, 2}, Actions: acts(2, n3, 3, n1, 0, n2)},
			},
			{
				{Backtrack: []uint16{1, 3, 2}, Input: []uint16{3, 1, 2}, Lookahead: []uint16{2, 3, 1}, Actions: acts(1, n1, 2, n2, 3, n3)},
				{Backtrack: []uint16{3, 1, 2}, Input: []uint16{1, 2, 3}, Lookahead: []uint16{3, 1, 2}, Actions: acts(0, n2, 3, n3, 2, n1)},
				{Backtrack: []uint16{2, 3, 1}, Input: []uint16{2, 2, 1}, Lookahead: []uint16{1, 1, 2}, Actions: acts(2, n3, 0, n1, 1, n2)},
			},
			{
				{Backtrack: []uint16{2, 1, 3}, Input: []uint16{1, 2, 3}, Lookahead: []uint16{3, 2, 1}, Actions: acts(3, n1, 1, n2, 0, n3)},
				{Backtrack: []uint16{1, 2, 3}, Input: []uint16{2, 3, 1}, Lookahead: []uint16{1, 3, 2}, Actions: acts(2, n2, 0, n3, 3, n1)},
				{Backtrack: []uint16{3, 3, 1}, Input: []uint16{3, 3, 1}, Lookahead: []uint16{2, 2, 3}, Actions: acts(1, n3, 2, n1, 0, n2)},
			},
		},
	})

	// chained, format 3
	add(chType, 0, 0, "ABCTUVXYZ ZYXUVWYAB", &gtab.ChainedSeqContext3{
		Backtrack: []coverage.Set{b.set("CX"), b.set("BY"), b.set("AZ")},
		Input:     []coverage.Set{b.set("TU"), b.set("UV"), b.set("VW")},
		Lookahead: []coverage.Set{b.set("XY"), b.set("YA"), b.set("ZB")},
		Actions:   acts(0, n1, 2, n2, 1, 999, 1, n3, 5, n1, 0, n2),
	})

	// one lookup with three subtables and lookup flags: marks outside the
	// mark filtering set 1 are skipped (GDEF: M N O are marks)
	cov1, cov2, cov3 := b.tab("DEF"), b.tab("GHI"), b.tab("JKL")
	add(chType, gtab.UseMarkFilteringSet, 1, "AMBNCODMEFGOHI DEFGMHIJNK GHIJOKLPQM",
		&gtab.ChainedSeqContext1{
			Cov: cov1,
			Rules: perCov(cov1, b, "DEF",
				[]*gtab.ChainedSeqRule{{Backtrack: b.ids("CBA"), Input: b.ids("EF"), Lookahead: b.ids("GOH"), Actions: acts(0, n1, 1, n2, 2, n3)}},
				[]*gtab.ChainedSeqRule{{Backtrack: b.ids("DCB"), Input: b.ids("FG"), Lookahead: b.ids("HIJ"), Actions: acts(2, n1, 0, n2, 1, n3)}},
				[]*gtab.ChainedSeqRule{{Backtrack: b.ids("EDC"), Input: b.ids("GH"), Lookahead: b.ids("IJK"), Actions: acts(1, n1, 2, n2, 0, n3)}}),
		},
		&gtab.ChainedSeqContext2{
			Cov:       cov2,
			Backtrack: b.classes("D", "E", "F"),
			Input:     b.classes("G", "H", "I"),
			Lookahead: b.classes("J", "K", "L"),
			Rules: [][]*gtab.ChainedClassSeqRule{
				nil,
				{{Backtrack: []uint16{3, 2, 1}, Input: []uint16{2, 3}, Lookahead: []uint16{1, 2, 3}, Actions: acts(0, n3, 1, n2, 2, n1)}},
				{{Backtrack: []uint16{1, 3, 2}, Input: []uint16{3, 1}, Lookahead: []uint16{2, 3, 1}, Actions: acts(0, n2, 1, n1, 0, n3)}},
				{{Backtrack: []uint16{2, 1, 3}, Input: []uint16{1, 2}, Lookahead: []uint16{3, 1, 2}, Actions: acts(1, n1, 0, n3, 2, n2)}},
			},
		},
		&gtab.ChainedSeqContext3{
			Backtrack: []coverage.Set{b.set("I"), b.set("H"), b.set("G")},
			Input:     []coverage.Set{cov3.ToSet(), b.set("KL"), b.set("LP")},
			Lookahead: []coverage.Set{b.set("PQ"), b.set("Q"), b.set("RM")},
			Actions:   acts(2, n1, 1, n2, 0, n3),
		})
	return ll, texts
}

func lookup(tp uint16, flags gtab.LookupFlags, st ...gtab.Subtable) *gtab.LookupTable {
	return &gtab.LookupTable{Meta: &gtab.LookupMetaInfo{LookupType: tp, LookupFlags: flags}, Subtables: st}
}

// richGsubList: indices 0-6 contextual, 7-10 the nested lookups (types 1-4),
// 11 (only with extra) GSUB 8.1.
func (b *richBuilder) richGsubList(extra bool) (gtab.LookupList, []string) {
	ll, texts := b.contextLookups(5, 6, 7, 8, 10)
	ll = append(ll,
		lookup(1, 0,
			&gtab.Gsub1_1{Cov: b.set("EFG"), Delta: 3},
			&gtab.Gsub1_2{Cov: b.tab("ABCT"), SubstituteGlyphIDs: b.ids("XYZW")},
			&gtab.Gsub1_2{Cov: b.tab("QRS"), SubstituteGlyphIDs: b.ids("SQR")}),
		lookup(2, 0,
			&gtab.Gsub2_1{Cov: b.tab("ERU"), Repl: [][]glyph.ID{b.ids("XYZ"), b.ids("ZXYW"), b.ids("YZX")}},
			&gtab.Gsub2_1{Cov: b.tab("BCD"), Repl: [][]glyph.ID{b.ids("BAC"), b.ids("CAB"), b.ids("DAB")}},
			&gtab.Gsub2_1{Cov: b.tab("IJK"), Repl: [][]glyph.ID{b.ids("IKJ"), b.ids("JIK"), b.ids("KJI")}}),
		lookup(3, 0,
			&gtab.Gsub3_1{Cov: b.tab("FSV"), Alternates: [][]glyph.ID{b.ids("GHI"), b.ids("TUV"), b.ids("WXY")}},
			&gtab.Gsub3_1{Cov: b.tab("WXY"), Alternates: [][]glyph.ID{b.ids("XYW"), b.ids("YWX"), b.ids("WYX")}},
			&gtab.Gsub3_1{Cov: b.tab("AZ"), Alternates: [][]glyph.ID{b.ids("BCD"), b.ids("YXW")}}),
		lookup(4, gtab.IgnoreMarks,
			&gtab.Gsub4_1{Cov: b.tab("FGK"), Repl: [][]gtab.Ligature{
				{{In: b.ids("GHI"), Out: b.g('Z')}, {In: b.ids("IHG"), Out: b.g('Y')}, {In: b.ids("H"), Out: b.g('X')}},
				{{In: b.ids("HIJ"), Out: b.g('W')}, {In: b.ids("JIH"), Out: b.g('V')}, {In: b.ids("HJ"), Out: b.g('U')}},
				{{In: b.ids("LPQ"), Out: b.g('T')}, {In: b.ids("QPL"), Out: b.g('S')}, {In: b.ids("PQ"), Out: b.g('R')}},
			}},
			&gtab.Gsub4_1{Cov: b.tab("ABC"), Repl: [][]gtab.Ligature{
				{{In: b.ids("BCA"), Out: b.g('K')}, {In: b.ids("CAB"), Out: b.g('L')}, {In: b.ids("BC"), Out: b.g('K')}},
				{{In: b.ids("CAB"), Out: b.g('L')}},
				{{In: b.ids("ABC"), Out: b.g('K')}},
			}},
			&gtab.Gsub4_1{Cov: b.tab("TUV"), Repl: [][]gtab.Ligature{
				{{In: b.ids("UVW"), Out: b.g('K')}}, {{In: b.ids("VWT"), Out: b.g('L')}}, {{In: b.ids("WTU"), Out: b.g('K')}},
			}}),
	)
	texts = append(texts, "EFGABCTQRS", "ERUBCDIJK", "FSVWXYAZ", "FGHIGHIJKLPQ FMGNHOI ABCA TUVW")
	if extra {
		ll = append(ll, lookup(8, 0,
			&gtab.Gsub8_1{
				Input:              b.tab("DEF"),
				Backtrack:          []coverage.Table{b.tab("CX"), b.tab("BY"), b.tab("AZ")},
				Lookahead:          []coverage.Table{b.tab("GX"), b.tab("HY"), b.tab("IZ")},
				SubstituteGlyphIDs: b.ids("XYZ"),
			},
			&gtab.Gsub8_1{
				Input:              b.tab("PQR"),
				Backtrack:          []coverage.Table{b.tab("L"), b.tab("K"), b.tab("J")},
				Lookahead:          []coverage.Table{b.tab("S"), b.tab("T"), b.tab("U")},
				SubstituteGlyphIDs: b.ids("RPQ"),
			},
			&gtab.Gsub8_1{
				Input:              b.tab("TUV"),
				Backtrack:          []coverage.Table{b.tab("S"), b.tab("R"), b.tab("Q")},
				Lookahead:          []coverage.Table{b.tab("W"), b.tab("X"), b.tab("Y")},
				SubstituteGlyphIDs: b.ids("VTU"),
			}))
		texts = append(texts, "ABCDGHI JKLPSTU QRSTWXY ZYXEXYZ")
	}
	return ll, texts
}

func vr(x, y, dx, dy int) *gtab.GposValueRecord {
	return &gtab.GposValueRecord{XPlacement: funit.Int16(x), YPlacement: funit.Int16(y), XAdvance: funit.Int16(dx), YAdvance: funit.Int16(dy)}
}

func at(x, y int) anchor.Table { return anchor.Table{X: funit.Int16(x), Y: funit.Int16(y)} }

func mark(class uint16, x, y int) markarray.Record {
	return markarray.Record{Class: class, Table: at(x, y)}
}

// richGposList: indices 0-6 contextual, 7-10 the nested lookups (types 1-4),
// 11 (only with extra) GPOS 6.1.
func (b *richBuilder) richGposList(extra bool) (gtab.LookupList, []string) {
	ll, texts := b.contextLookups(7, 8, 7, 8, 9)
	pa := func(k int) *gtab.PairAdjust {
		return &gtab.PairAdjust{First: vr(k, 2*k, -10*k, 0), Second: vr(-k, k+1, 3*k, 0)}
	}
	g := b.g
	ll = append(ll,
		lookup(1, 0,
			&gtab.Gpos1_1{Cov: b.tab("EFG"), Adjust: vr(10, -20, 30, 0)},
			&gtab.Gpos1_2{Cov: b.tab("ABC"), Adjust: []*gtab.GposValueRecord{vr(1, 2, 3, 0), vr(4, 5, 6, 0), vr(7, 8, 9, 0)}},
			&gtab.Gpos1_2{Cov: b.tab("QRST"), Adjust: []*gtab.GposValueRecord{vr(0, 0, -5, 0), vr(0, 0, -6, 0), vr(0, 0, -7, 0), vr(0, 3, -8, 0)}}),
		lookup(2, 0,
			gtab.Gpos2_1{
				{Left: g('A'), Right: g('V')}: pa(1),
				{Left: g('T'), Right: g('O')}: pa(2),
				{Left: g('E'), Right: g('F')}: pa(3),
				{Left: g('R'), Right: g('S')}: pa(4),
			},
			&gtab.Gpos2_2{
				Cov:    b.set("BCDFGH"),
				Class1: b.classes("BF", "CG", "DH"),
				Class2: b.classes("CD", "EG", "HI"),
				Adjust: [][]*gtab.PairAdjust{
					{pa(0), pa(5), pa(6), pa(7)},
					{pa(8), pa(9), pa(10), pa(11)},
					{pa(12), pa(13), pa(14), pa(15)},
					{pa(16), pa(17), pa(18), pa(19)},
				},
			},
			&gtab.Gpos2_2{
				Cov:    b.set("QRSTUV"),
				Class1: b.classes("QT", "RU", "SV"),
				Class2: b.classes("RS", "TU", "VW"),
				Adjust: [][]*gtab.PairAdjust{
					{pa(0), pa(21), pa(22), pa(23)},
					{pa(24), pa(25), pa(26), pa(27)},
					{pa(28), pa(29), pa(30), pa(31)},
					{pa(32), pa(33), pa(34), pa(35)},
				},
			}),
		lookup(3, 0,
			&gtab.Gpos3_1{Cov: b.tab("IJK"), Records: []gtab.EntryExitRecord{
				{Entry: at(0, 100), Exit: at(500, 120)}, {Entry: at(10, 130), Exit: at(510, 90)}, {Entry: at(20, 80), Exit: at(520, 140)}}},
			&gtab.Gpos3_1{Cov: b.tab("LPQ"), Records: []gtab.EntryExitRecord{
				{Entry: at(5, 10), Exit: at(400, 20)}, {Entry: at(6, 30), Exit: at(410, 40)}, {Entry: at(7, 50), Exit: at(420, 60)}}},
			&gtab.Gpos3_1{Cov: b.tab("WXY"), Records: []gtab.EntryExitRecord{
				{Entry: at(1, 1), Exit: at(300, 2)}, {Entry: at(2, 3), Exit: at(310, 4)}, {Entry: at(3, 5), Exit: at(320, 6)}}}),
		lookup(4, 0,
			&gtab.Gpos4_1{
				MarkCov:   b.tab("MNO"),
				BaseCov:   b.tab("ABC"),
				MarkArray: []markarray.Record{mark(0, 100, 0), mark(1, 110, 10), mark(2, 120, 20)},
				BaseArray: [][]anchor.Table{
					{at(400, 1000), at(410, 990), at(420, 980)},
					{at(300, 900), at(310, 890), at(320, 880)},
					{at(200, 800), at(210, 790), at(220, 780)},
				},
			},
			&gtab.Gpos4_1{
				MarkCov:   b.tab("MNO"),
				BaseCov:   b.tab("DEF"),
				MarkArray: []markarray.Record{mark(2, 50, 5), mark(0, 60, 6), mark(1, 70, 7)},
				BaseArray: [][]anchor.Table{
					{at(401, 700), at(411, 690), at(421, 680)},
					{at(301, 600), at(311, 590), at(321, 580)},
					{at(201, 500), at(211, 490), at(221, 480)},
				},
			},
			&gtab.Gpos4_1{
				MarkCov:   b.tab("MNO"),
				BaseCov:   b.tab("GHI"),
				MarkArray: []markarray.Record{mark(1, 55, 15), mark(2, 65, 16), mark(0, 75, 17)},
				BaseArray: [][]anchor.Table{
					{at(402, 701), at(412, 691), at(422, 681)},
					{at(302, 601), at(312, 591), at(322, 581)},
					{at(202, 501), at(212, 491), at(222, 481)},
				},
			}),
	)
	texts = append(texts, "EFGABCQRST", "AVTOEFRS BCDEFGHI QRSTUVW", "IJKLPQWXY", "AMBNCO DOEMFN GNHOIM")
	if extra {
		ll = append(ll,
			lookup(6, 0,
				&gtab.Gpos6_1{
					Mark1Cov:   b.tab("MNO"),
					Mark2Cov:   b.tab("MNO"),
					Mark1Array: []markarray.Record{mark(0, 10, 300), mark(1, 11, 310), mark(2, 12, 320)},
					Mark2Array: [][]anchor.Table{
						{at(10, 600), at(20, 610), at(30, 620)},
						{at(11, 601), at(21, 611), at(31, 621)},
						{at(12, 602), at(22, 612), at(32, 622)},
					},
				},
				&gtab.Gpos6_1{
					Mark1Cov:   b.tab("MN"),
					Mark2Cov:   b.tab("NO"),
					Mark1Array: []markarray.Record{mark(1, 13, 330), mark(0, 14, 340)},
					Mark2Array: [][]anchor.Table{{at(13, 603), at(23, 613)}, {at(14, 604), at(24, 614)}},
				},
				&gtab.Gpos6_1{
					Mark1Cov:   b.tab("O"),
					Mark2Cov:   b.tab("MNO"),
					Mark1Array: []markarray.Record{mark(0, 15, 350)},
					Mark2Array: [][]anchor.Table{{at(15, 605)}, {at(16, 606)}, {at(17, 607)}},
				}))
		texts = append(texts, "AMNO BONM CNMO")
	}
	return ll, texts
}

// richGpos5List: GPOS 5.1 exists in the library only as a reader (encode is
// "not implemented", apply matches nothing), so it cannot be part of a font
// that is written; it is kept as a stand-alone shared lookup list.
func (b *richBuilder) richGpos5List() (gtab.LookupList, string) {
	lig := func(k int) [][]anchor.Table {
		return [][]anchor.Table{
			{at(100+k, 900), at(110+k, 890), at(120+k, 880)},
			{at(400+k, 910), at(410+k, 895), at(420+k, 885)},
			{at(700+k, 920), at(710+k, 897), at(720+k, 887)},
		}
	}
	var ll gtab.LookupList
	ll = append(ll,
		lookup(5, 0,
			&gtab.Gpos5_1{
				MarkCov:   b.tab("MNO"),
				LigCov:    b.tab("KLZ"),
				MarkArray: []markarray.Record{mark(0, 90, 1), mark(1, 91, 2), mark(2, 92, 3)},
				LigArray:  [][][]anchor.Table{lig(1), lig(2), lig(3)},
			},
			&gtab.Gpos5_1{
				MarkCov:   b.tab("MNO"),
				LigCov:    b.tab("WXY"),
				MarkArray: []markarray.Record{mark(2, 80, 4), mark(0, 81, 5), mark(1, 82, 6)},
				LigArray:  [][][]anchor.Table{lig(4), lig(5), lig(6)},
			},
			&gtab.Gpos5_1{
				MarkCov:   b.tab("MNO"),
				LigCov:    b.tab("TUV"),
				MarkArray: []markarray.Record{mark(1, 70, 7), mark(2, 71, 8), mark(0, 72, 9)},
				LigArray:  [][][]anchor.Table{lig(7), lig(8), lig(9)},
			}))
	return ll, "KMLNZO WOXMYN TNUOVM"
}

func (b *richBuilder) richGdef() *gdef.Table {
	g := b.g
	return &gdef.Table{
		GlyphClass: classdef.Table{
			g('A'): gdef.GlyphClassBase, g('B'): gdef.GlyphClassBase, g('C'): gdef.GlyphClassBase,
			g('K'): gdef.GlyphClassLigature, g('L'): gdef.GlyphClassLigature, g('Z'): gdef.GlyphClassLigature,
			g('M'): gdef.GlyphClassMark, g('N'): gdef.GlyphClassMark, g('O'): gdef.GlyphClassMark,
		},
		MarkAttachClass: classdef.Table{g('M'): 1, g('N'): 2, g('O'): 3},
		MarkGlyphSets:   []coverage.Set{b.set("MN"), b.set("NO"), b.set("MO"), b.set("MNO")},
	}
}

func seqIdx(n int) []gtab.LookupIndex {
	out := make([]gtab.LookupIndex, n)
	for i := range out {
		out[i] = gtab.LookupIndex(i)
	}
	return out
}

// installRich puts the tables into the font and returns the per-lookup texts.
func newRichBuilder(f *sfnt.Font) *richBuilder {
	cm, err := f.CMapTable.GetBest()
	if err != nil {
		panic(err)
	}
	return &richBuilder{g: func(r rune) glyph.ID {
		g := cm.Lookup(r)
		if g == 0 {
			panic(fmt.Sprintf("rich environment: no glyph for %q", r))
		}
		return g
	}}
}

func installRich(f *sfnt.Font, extra bool) (gsubTexts, gposTexts []string) {
	b := newRichBuilder(f)
	gs, gsubTexts := b.richGsubList(extra)
	gp, gposTexts := b.richGposList(extra)
	f.Gdef = b.richGdef()
	f.Gsub = gtabInfo(gs, "liga", seqIdx(len(gs)))
	f.Gpos = gtabInfo(gp, "kern", seqIdx(len(gp)))
	return
}

// richLists: one shared-lookup-list case per lookup, on the font's OWN lookup
// lists (the way real callers use gtab.NewContext: the list is the font's).
func richLists(e *Env, gsubTexts, gposTexts []string) {
	for i, t := range gsubTexts {
		if i < len(e.Font.Gsub.LookupList) {
			e.Lists = append(e.Lists, &lookupCase{Name: fmt.Sprintf("gsub%d", i), List: e.Font.Gsub.LookupList,
				Lookups: []gtab.LookupIndex{gtab.LookupIndex(i)}, In: t})
		}
	}
	for i, t := range gposTexts {
		if i < len(e.Font.Gpos.LookupList) {
			e.Lists = append(e.Lists, &lookupCase{Name: fmt.Sprintf("gpos%d", i), List: e.Font.Gpos.LookupList,
				Lookups: []gtab.LookupIndex{gtab.LookupIndex(i)}, In: t})
		}
	}
	seen := map[string]bool{}
	for _, t := range append(append([]string{}, gsubTexts...), gposTexts...) {
		if !seen[t] {
			seen[t] = true
			e.Texts = append(e.Texts, t)
		}
	}
	if strings.HasSuffix(e.Name, "-all") {
		ll, t := newRichBuilder(e.Font).richGpos5List()
		e.Lists = append(e.Lists, &lookupCase{Name: "gpos5", List: ll, Lookups: []gtab.LookupIndex{0}, In: t})
		e.Texts = append(e.Texts, t)
	}
	e.Texts = append(e.Texts, "")
}

// ---------------------------------------------------------------- coverage of the kinds

var gtabPkgPrefixes = []string{"gtab.", "gdef.", "markarray.", "anchor.", "coverage.", "classdef."}

func inGtabPkgs(t reflect.Type) bool {
	s := t.String()
	s = strings.TrimLeft(s, "*[]")
	for _, p := range gtabPkgPrefixes {
		if strings.HasPrefix(s, p) {
			return true
		}
	}
	return false
}

// sliceFieldStats walks v and records, for every slice-typed field of a
// struct type of the layout packages, the largest number of distinct elements
// seen in one instance ("Type.Field" -> count); for the slices that are not
// struct fields (LookupList, [][]T rows) the key is the slice type.
func sliceFieldStats(v reflect.Value, key string, out map[string]int, seen map[visitKey]bool) {
	if !v.IsValid() {
		return
	}
	v = rw(v)
	switch v.Kind() {
	case reflect.Ptr:
		if v.IsNil() {
			return
		}
		k := visitKey{v.UnsafePointer(), v.Type()}
		if seen[k] {
			return
		}
		seen[k] = true
		sliceFieldStats(v.Elem(), "", out, seen)
	case reflect.Interface:
		if !v.IsNil() {
			sliceFieldStats(v.Elem(), "", out, seen)
		}
	case reflect.Struct:
		v = addressable(v)
		t := v.Type()
		for i := 0; i < v.NumField(); i++ {
			k := ""
			if inGtabPkgs(t) {
				k = t.String() + "." + t.Field(i).Name
			}
			sliceFieldStats(v.Field(i), k, out, seen)
		}
	case reflect.Slice:
		keyed := key != ""
		if !keyed {
			key = v.Type().String()
		}
		ek := v.Type().Elem().Kind()
		if keyed || (inGtabPkgs(v.Type().Elem()) && (ek == reflect.Ptr || ek == reflect.Struct || ek == reflect.Slice || ek == reflect.Interface || ek == reflect.Map)) {
			distinct := map[[32]byte]bool{}
			for i := 0; i < v.Len(); i++ {
				hs := newHasher()
				hs.walk(v.Index(i))
				distinct[hs.sum()] = true
			}
			if n, ok := out[key]; !ok || len(distinct) > n {
				out[key] = len(distinct)
			}
		}
		for i := 0; i < v.Len(); i++ {
			sliceFieldStats(v.Index(i), v.Type().Elem().String(), out, seen)
		}
	case reflect.Map:
		it := v.MapRange()
		for it.Next() {
			sliceFieldStats(it.Value(), "", out, seen)
		}
	}
}

// allSubtableKinds: the subtable kinds this harness knows (one value each, so
// that the slice-typed fields of a kind absent from an environment still show
// up, with count 0).
var allSubtableKinds = []any{
	&gtab.Gsub1_1{}, &gtab.Gsub1_2{}, &gtab.Gsub2_1{}, &gtab.Gsub3_1{}, &gtab.Gsub4_1{}, &gtab.Gsub8_1{},
	&gtab.SeqContext1{}, &gtab.SeqContext2{}, &gtab.SeqContext3{},
	&gtab.ChainedSeqContext1{}, &gtab.ChainedSeqContext2{}, &gtab.ChainedSeqContext3{},
	&gtab.Gpos1_1{}, &gtab.Gpos1_2{}, gtab.Gpos2_1{}, &gtab.Gpos2_2{}, &gtab.Gpos3_1{},
	&gtab.Gpos4_1{}, &gtab.Gpos5_1{}, &gtab.Gpos6_1{},
	&gtab.SeqRule{}, &gtab.ClassSeqRule{}, &gtab.ChainedSeqRule{}, &gtab.ChainedClassSeqRule{}, &gtab.Ligature{},
	&gtab.LookupTable{}, &gtab.Feature{}, &gtab.Features{}, &gtab.Info{}, &gdef.Table{},
}

func knownKindNames() map[string]bool {
	out := map[string]bool{}
	for _, k := range allSubtableKinds {
		t := reflect.TypeOf(k)
		if t.Kind() == reflect.Ptr {
			t = t.Elem()
		}
		out[t.Name()] = true
	}
	return out
}

// coverageGaps lists the slice-typed fields that hold fewer than three
// distinct elements everywhere in the given environments.
func coverageGaps(envs []*Env) (gaps []string, stats map[string]int) {
	stats = map[string]int{}
	for _, k := range allSubtableKinds {
		t := reflect.TypeOf(k)
		if t.Kind() == reflect.Ptr {
			t = t.Elem()
		}
		if t.Kind() != reflect.Struct {
			continue
		}
		for i := 0; i < t.NumField(); i++ {
			if t.Field(i).Type.Kind() == reflect.Slice {
				stats[t.String()+"."+t.Field(i).Name] = 0
			}
		}
	}
	for _, e := range envs {
		seen := map[visitKey]bool{}
		sliceFieldStats(reflect.ValueOf(&e.Font.Gsub), "", stats, seen)
		sliceFieldStats(reflect.ValueOf(&e.Font.Gpos), "", stats, seen)
		sliceFieldStats(reflect.ValueOf(&e.Font.Gdef), "", stats, seen)
		sliceFieldStats(reflect.ValueOf(&e.Lists), "", stats, seen)
	}
	for k, n := range stats {
		if n < 3 {
			gaps = append(gaps, fmt.Sprintf("%s:%d", k, n))
		}
	}
	sort.Strings(gaps)
	return
}

// subtableKindsInSource parses the gtab package of the source tree the
// harness was built against and returns the names of the types that have an
// apply(ctx *Context, ...) method, i.e. the subtable kinds the library has.
func subtableKindsInSource() ([]string, error) {
	fn := runtime.FuncForPC(reflect.ValueOf(gtab.NewContext).Pointer())
	if fn == nil {
		return nil, fmt.Errorf("no function information for gtab.NewContext")
	}
	file, _ := fn.FileLine(fn.Entry())
	dir := filepath.Dir(file)
	fset := token.NewFileSet()
	pkgs, err := parser.ParseDir(fset, dir, func(fi fs.FileInfo) bool {
		return !strings.HasSuffix(fi.Name(), "_test.go")
	}, 0)
	if err != nil {
		return nil, err
	}
	set := map[string]bool{}
	for _, p := range pkgs {
		for _, f := range p.Files {
			for _, d := range f.Decls {
				fd, ok := d.(*ast.FuncDecl)
				if !ok || fd.Recv == nil || fd.Name.Name != "apply" || len(fd.Recv.List) != 1 {
					continue
				}
				t := fd.Recv.List[0].Type
				if st, ok := t.(*ast.StarExpr); ok {
					t = st.X
				}
				if id, ok := t.(*ast.Ident); ok {
					set[id.Name] = true
				}
			}
		}
	}
	var out []string
	for k := range set {
		out = append(out, k)
	}
	sort.Strings(out)
	return out, nil
}
