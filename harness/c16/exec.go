package c16

// exec.go: execution of one case on the real code, sequentially (op-granular
// schedule) or with one goroutine per thread, and the property oracle.

import (
	"fmt"
	"regexp"
	"sort"
	"strings"
	"sync"

	"golang.org/x/text/language"
)

type caseResult struct {
	Impl   string   `json:"impl"`
	Fail   string   `json:"fail,omitempty"`
	Sig    string   `json:"sig,omitempty"`
	Race   string   `json:"race,omitempty"` // the detector's report, if any
	Err    string   `json:"err,omitempty"`  // harness-level problem (not an observation)
	Labels []string `json:"labels,omitempty"`
}

var envCache = map[string]*Env{}

func getEnv(name string) (*Env, error) {
	if e, ok := envCache[name]; ok {
		return e, nil
	}
	e, err := BuildEnv(name)
	if err != nil {
		return nil, err
	}
	envCache[name] = e
	return e, nil
}

// restoreAll undoes what the controls did (mutated fields, the shared
// Layouter's buffers).
func (e *Env) restoreAll(layouterDirty bool) {
	e.Restore()
	if layouterDirty && e.SharedLayouter != nil {
		l, err := e.Font.NewLayouter(language.AmericanEnglish, nil, nil)
		if err == nil {
			e.SharedLayouter = l
		}
	}
}

func sharedOnly(xs []CellVal) []CellVal {
	var out []CellVal
	for _, x := range xs {
		if x.Cell < CellPrivBase && x.Cell != CellShLay {
			out = append(out, x)
		}
	}
	return out
}

// opSchedule recovers the op-granular order from a step schedule in which the
// steps of every operation are contiguous.
func (c *caseT) opSchedule() ([][2]int, error) {
	next := make([]int, len(c.Threads))
	var out [][2]int
	i := 0
	for i < len(c.Sched) {
		t := c.Sched[i]
		if t < 0 || t >= len(c.Threads) || next[t] >= len(c.Threads[t]) {
			i++ // idle step (finished thread or no such thread)
			continue
		}
		k := c.Threads[t][next[t]].steps()
		if i+k > len(c.Sched) {
			return nil, fmt.Errorf("seq schedule ends inside an operation")
		}
		for j := 0; j < k; j++ {
			if c.Sched[i+j] != t {
				return nil, fmt.Errorf("seq schedule interleaves inside an operation")
			}
		}
		out = append(out, [2]int{t, next[t]})
		next[t]++
		i += k
	}
	return out, nil
}

func execCase(c *caseT, raceProbe func() string) (cr caseResult) {
	e, err := getEnv(c.Env)
	if err != nil {
		cr.Err = err.Error()
		return
	}
	dirty := false
	for _, t := range c.Threads {
		for _, o := range t {
			if o.Name == "LayoutShared" {
				dirty = true
			}
		}
	}
	control := c.hasControl()
	// The deep hash of the pristine state is computed once per environment and
	// kept as long as every later case leaves the state as it was (which is
	// checked after every case); alone results of control-free threads are
	// kept likewise.
	if e.pristine == nil {
		e.restoreAll(false)
		e.pristine = e.Cells()
		e.aloneCache = map[string][]string{}
	}
	pristine := e.pristine
	ref := e // the instance the alone runs use

	// every thread alone, from the pristine state (for concurrent cases this
	// happens after the goroutines have run, so that first-use effects of
	// package-level state would fall into the concurrent phase)
	alone := make([][]string, len(c.Threads))
	computeAlone := func() bool {
		for t, ops := range c.Threads {
			key := ""
			for _, o := range ops {
				key += fmt.Sprintf("%s/%d;", o.Name, o.Arg)
			}
			if r, ok := ref.aloneCache[key]; ok && !control {
				alone[t] = r
				continue
			}
			tc := &ThreadCtx{ID: t}
			for _, o := range ops {
				alone[t] = append(alone[t], Call(opIndex[o.Name], ref, tc, o.Arg))
			}
			if control {
				ref.restoreAll(dirty)
			} else {
				ref.aloneCache[key] = alone[t]
			}
		}
		if control {
			if fmt.Sprint(ref.Cells()) != fmt.Sprint(pristine) {
				cr.Err = "restore after the alone runs does not give the pristine state back"
				return false
			}
		}
		return true
	}
	if c.Mode == "seq" && !computeAlone() {
		return
	}

	got := make([][]string, len(c.Threads))
	fin := make([]bool, len(c.Threads))
	for t := range got {
		got[t] = make([]string, len(c.Threads[t]))
	}
	raceText := ""
	doneOps := make([]int, len(c.Threads))
	switch c.Mode {
	case "seq":
		order, err := c.opSchedule()
		if err != nil {
			cr.Err = err.Error()
			return
		}
		tcs := make([]*ThreadCtx, len(c.Threads))
		done := doneOps
		for t := range tcs {
			tcs[t] = &ThreadCtx{ID: t}
		}
		for _, st := range order {
			o := c.Threads[st[0]][st[1]]
			got[st[0]][st[1]] = Call(opIndex[o.Name], e, tcs[st[0]], o.Arg)
			done[st[0]]++
		}
		for t := range fin {
			fin[t] = done[t] == len(c.Threads[t])
		}
	case "conc":
		// The goroutines get a font no operation has touched before (the
		// environments are built deterministically), so that a lazily
		// initialised cache would be written by them and not by the alone
		// runs above.
		fresh, err := BuildEnv(c.Env)
		if err != nil {
			cr.Err = err.Error()
			return
		}
		e = fresh
		if raceProbe != nil {
			raceProbe() // discard anything reported before this case
		}
		var wg sync.WaitGroup
		start := make(chan struct{})
		for t := range c.Threads {
			wg.Add(1)
			go func(t int) {
				defer wg.Done()
				tc := &ThreadCtx{ID: t}
				<-start
				for i, o := range c.Threads[t] {
					got[t][i] = Call(opIndex[o.Name], e, tc, o.Arg)
				}
			}(t)
		}
		close(start)
		wg.Wait()
		if raceProbe != nil {
			raceText = raceProbe()
		}
		for t := range fin {
			fin[t] = true
		}
	}
	after := e.Cells()
	diff := sharedOnly(diffCells(pristine, after))
	if c.Mode == "conc" {
		e = ref // the fresh instance is dropped
		if !computeAlone() {
			return
		}
	} else if control || len(diffCells(pristine, after)) > 0 {
		e.restoreAll(dirty)
		e.pristine = nil // recomputed by the next case
	}

	// one flag per completed operation: same result as when run alone?
	flags := make([][]bool, len(c.Threads))
	for t := range flags {
		n := len(c.Threads[t])
		if c.Mode == "seq" {
			n = doneOps[t]
		}
		flags[t] = make([]bool, n)
		for i := range flags[t] {
			flags[t][i] = got[t][i] == alone[t][i]
		}
	}
	cr.Impl = observation(flags, fin, diff, c.Mode, raceText != "")
	cr.Race = raceText

	// ---- the property oracle: only cases inside the property (no control)
	if control {
		return
	}
	if raceText != "" {
		a, b := raceOps(raceText)
		cr.Sig = "race:" + raceSignature(raceText)
		cr.Fail = fmt.Sprintf("data race reported between read-only operations %s and %s on one shared font (%s): %s",
			a, b, c.Env, firstLines(raceText, 40))
		return
	}
	for t := range flags {
		for i, ok := range flags[t] {
			if ok {
				continue
			}
			o := c.Threads[t][i]
			// is the operation deterministic when run alone?
			r1 := Call(opIndex[o.Name], e, &ThreadCtx{ID: t}, o.Arg)
			r2 := Call(opIndex[o.Name], e, &ThreadCtx{ID: t}, o.Arg)
			if r1 != alone[t][i] || r2 != r1 {
				cr.Labels = append(cr.Labels, "nondeterministic-alone:"+o.Name)
				flags[t][i] = true
				continue
			}
			cr.Sig = "result-differs:" + o.Name
			cr.Fail = fmt.Sprintf("thread %d op %d (%s %d) on %s returned a different result under %s execution than alone",
				t, i, o.Name, o.Arg, c.Env, c.Mode)
			return
		}
	}
	if len(cr.Labels) > 0 {
		cr.Impl = observation(flags, fin, diff, c.Mode, false)
	}
	if len(diff) > 0 {
		names := []string{}
		for _, d := range diff {
			names = append(names, cellName(d.Cell))
		}
		cr.Sig = "hidden-write:" + strings.Join(names, ",")
		cr.Fail = fmt.Sprintf("read-only operations changed the shared font (%s): cells %s differ from the state before",
			c.Env, strings.Join(names, ","))
	}
	return
}

// ---- race reports

var frameRe = regexp.MustCompile(`(?m)^  (\S+)\(\)$`)
var opRe = regexp.MustCompile(`c16\.(Op_\w+|mkSet)`)

func firstLines(s string, n int) string {
	l := strings.Split(s, "\n")
	if len(l) > n {
		l = l[:n]
	}
	return strings.Join(l, " | ")
}

// raceSections returns the two access stacks of the first report.
func raceSections(text string) (string, string) {
	i := strings.Index(text, "WARNING: DATA RACE")
	if i < 0 {
		return "", ""
	}
	parts := strings.Split(text[i:], "\n\n")
	a, b := "", ""
	if len(parts) > 0 {
		a = parts[0]
	}
	if len(parts) > 1 {
		b = parts[1]
	}
	return a, b
}

func topRepoFrame(sec string) string {
	for _, m := range frameRe.FindAllStringSubmatch(sec, -1) {
		fn := m[1]
		if strings.HasPrefix(fn, "runtime.") || strings.HasPrefix(fn, "reflect.") {
			continue
		}
		return fn
	}
	return "?"
}

func raceOps(text string) (string, string) {
	a, b := raceSections(text)
	fa, fb := opRe.FindString(a), opRe.FindString(b)
	if fa == "" {
		fa = "?"
	}
	if fb == "" {
		fb = "?"
	}
	return fa, fb
}

// raceSignature is stable across runs: the functions of the two conflicting
// accesses (the operations they were made from are named in the detail).
func raceSignature(text string) string {
	a, b := raceSections(text)
	x := []string{topRepoFrame(a), topRepoFrame(b)}
	sort.Strings(x)
	return strings.Join(x, "|")
}
